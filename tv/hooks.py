"""Harness-side monitors on Arpeggio / textX (monkey patches; they record and return the original result)."""
import functools

_installed = {}


class ParseState:
    """before/after whitespace state of every Parser.parse call (state-restore invariant)."""

    def __init__(self):
        self.records = []

    def last(self):
        return self.records[-1] if self.records else None

    def clear(self):
        del self.records[:]


def install_parse_state():
    if 'parse_state' in _installed:
        return _installed['parse_state']
    import arpeggio
    ps = ParseState()
    orig = arpeggio.Parser.parse

    @functools.wraps(orig)
    def parse(self, *a, **k):
        before = (getattr(self, '_real_ws', None), self.skipws, self._eolterm)
        try:
            return orig(self, *a, **k)
        finally:
            after = (getattr(self, '_real_ws', None), self.skipws, self._eolterm)
            if len(ps.records) > 1000:
                del ps.records[:500]
            ps.records.append({'before': before, 'after': after, 'restored': before == after})
    arpeggio.Parser.parse = parse
    # every write to Parser.ws: a write of the newline-stripped set while eolterm is on and the real set had
    # newlines is the signature of Arpeggio's rule-exit restore inside an eolterm repetition
    prop = arpeggio.Parser.ws
    ps.stripped_restores = 0

    def set_ws(self, new_value):
        # a write to ws while an eolterm repetition is active: rule entry/exit of a ws= rule inside it.
        # The exit write puts back what the getter returned at entry, i.e. the newline-stripped set.
        if getattr(self, '_eolterm', False):
            ps.stripped_restores += 1
        prop.fset(self, new_value)
    arpeggio.Parser.ws = property(prop.fget, set_ws)
    _installed['parse_state'] = ps
    return ps


class MatchLog:
    """events from arpeggio.Match.parse: whitespace/comment skipping and terminal matches."""

    def __init__(self):
        self.events = []
        self.enabled = False
        self.cstore = {}
        self.comment_cache_hits = 0
        self.comment_cache_mismatch = 0

    def clear(self):
        del self.events[:]
        self.cstore.clear()
        self.comment_cache_hits = 0
        self.comment_cache_mismatch = 0


def install_match_log():
    """Wraps Match._parse_comments-free path: we wrap Match.parse and observe position changes.
    Event tuples:
      ('skip', pos_before, pos_after, ws, skipws, eolterm, in_comment)   whitespace skipped before a terminal
      ('match', rule_name, kind, start, end, to_match/pattern, suppress)  successful terminal match
    """
    if 'match_log' in _installed:
        return _installed['match_log']
    import arpeggio
    ml = MatchLog()
    orig_parse = arpeggio.Match.parse
    orig_skip = arpeggio.Match._parse_comments if hasattr(arpeggio.Match, '_parse_comments') else None

    @functools.wraps(orig_parse)
    def parse(self, parser):
        if not ml.enabled:
            return orig_parse(self, parser)
        p0 = parser.position
        ws, skipws, eol = parser.ws, parser.skipws, parser.eolterm
        in_c = getattr(parser, 'in_parse_comments', False)
        # Arpeggio's comment cache is keyed by position only: remember under which whitespace mode an entry
        # was stored and notice hits under another mode
        cp = getattr(parser, 'comment_positions', None)
        p1 = p0
        if cp is not None and not in_c:
            if skipws:
                inp = parser.input
                n = len(inp)
                while p1 < n and inp[p1] in ws:
                    p1 += 1
            hit = p1 in cp
            if hit:
                ml.comment_cache_hits += 1
                if ml.cstore.get(p1) not in (None, (skipws, ws)):
                    ml.comment_cache_mismatch += 1
        try:
            res = orig_parse(self, parser)
        except arpeggio.NoMatch:
            if cp is not None and not in_c and p1 in cp and p1 not in ml.cstore:
                ml.cstore[p1] = (skipws, ws)
            ml.events.append(('nomatch', getattr(self, 'rule_name', ''), p0, ws, skipws, eol, in_c))
            raise
        if cp is not None and not in_c and p1 in cp and p1 not in ml.cstore:
            ml.cstore[p1] = (skipws, ws)
        if res is not None or True:
            end = parser.position
            start = getattr(res, 'position', None)
            if start is None:
                start = end
            kind = 're' if isinstance(self, arpeggio.RegExMatch) else ('str' if isinstance(self, arpeggio.StrMatch) else type(self).__name__)
            ml.events.append(('match', getattr(self, 'rule_name', ''), kind, p0, start, end,
                              getattr(self, 'to_match', None), ws, skipws, eol, in_c,
                              getattr(self, 'ignore_case', None), id(self)))
        return res
    arpeggio.Match.parse = parse
    _installed['match_log'] = ml
    return ml


class MemoLog:
    """Arpeggio's packrat cache is keyed by (expression, position): remember the whitespace context at store
    time and compare it at hit time."""

    def __init__(self):
        self.enabled = False
        self.shared_nonroot = set()
        # emulation used by classifiers: treat the cache as if it were keyed by the whitespace context as well
        # (a hit on an entry stored under another context is turned into a miss)
        self.context_keyed = False
        self.clear()

    def clear(self):
        self.store_ctx = {}
        self.hits = 0
        self.hits_same_ctx = 0
        self.hits_other_ctx = 0
        self.hits_other_ctx_shared_nonroot = 0
        self.stores = 0


def install_memo_log():
    if 'memo_log' in _installed:
        return _installed['memo_log']
    import arpeggio
    mlog = MemoLog()
    orig = arpeggio.ParsingExpression.parse

    @functools.wraps(orig)
    def parse(self, parser):
        if not (mlog.enabled and parser.memoization):
            return orig(self, parser)
        pos = parser.position
        key = (id(self), pos)
        cnow = (parser.skipws, parser.ws, parser.eolterm)
        cache = self._result_cache
        if pos in cache:
            mlog.hits += 1
            st = mlog.store_ctx.get(key)
            if st is None or st == cnow:
                mlog.hits_same_ctx += 1
            else:
                mlog.hits_other_ctx += 1
                if id(self) in mlog.shared_nonroot:
                    mlog.hits_other_ctx_shared_nonroot += 1
                if mlog.context_keyed:
                    del cache[pos]
                    mlog.store_ctx.pop(key, None)
            if pos in cache:
                return orig(self, parser)
        try:
            return orig(self, parser)
        finally:
            if pos in cache and key not in mlog.store_ctx:
                mlog.store_ctx[key] = cnow
                mlog.stores += 1
    arpeggio.ParsingExpression.parse = parse
    _installed['memo_log'] = mlog
    return mlog


def shared_nonroot_expressions(parser_model):
    """ids of parser expressions that are not named rules but are referenced from more than one parent
    (textX builds a tree below every rule; only rule expressions themselves are shared)"""
    parents = {}
    objs = {}
    seen = set()
    todo = [parser_model]
    while todo:
        e = todo.pop()
        if id(e) in seen:
            continue
        seen.add(id(e))
        for c in getattr(e, 'nodes', []) or []:
            parents.setdefault(id(c), set()).add(id(e))
            objs[id(c)] = c
            todo.append(c)
    return {k for k, ps in parents.items() if len(ps) > 1 and not getattr(objs[k], 'root', False)}


# ---------------------------------------------------------------------------------------------------------------
# "explained-by" classification of recorded Arpeggio mechanisms: run textX once more with exactly that mechanism
# repaired in Arpeggio (harness-side, never in the repository or the installed package). A divergence from the
# reference interpreter is attributed to the mechanism only if it disappears under the repair.
class arpeggio_repaired:
    """mechs: 'falsy-result' - OrderedChoice takes an alternative that matched with nothing to report (suppressed match,
    unmatched optional, predicate) for a failure and goes on WITHOUT restoring the position; repetitions stop at the
    first iteration with a falsy result even if it consumed input.
    'eolterm-ws-restore' - Sequence/OrderedChoice save Parser.ws (the newline-stripped set while an eolterm repetition
    is active) on entry of a rule with a ws= modifier and write it back on exit."""

    def __init__(self, mechs):
        self.mechs = set(mechs)
        self.saved = []

    def __enter__(self):
        import arpeggio
        from arpeggio import NoMatch
        falsy = 'falsy-result' in self.mechs
        wsr = 'eolterm-ws-restore' in self.mechs

        def cur_ws(parser):
            return parser._real_ws if wsr and hasattr(parser, '_real_ws') else parser.ws

        def seq_parse(self, parser):
            results = []
            c_pos = parser.position
            if self.ws is not None:
                old_ws = cur_ws(parser)
                parser.ws = self.ws
            if self.skipws is not None:
                old_skipws = parser.skipws
                parser.skipws = self.skipws
            try:
                for e in self.nodes:
                    result = e.parse(parser)
                    if result:
                        results.append(result)
            except NoMatch:
                parser.position = c_pos
                raise
            finally:
                if self.ws is not None:
                    parser.ws = old_ws
                if self.skipws is not None:
                    parser.skipws = old_skipws
            if results:
                return results

        def oc_parse(self, parser):
            result = None
            match = False
            c_pos = parser.position
            if self.ws is not None:
                old_ws = cur_ws(parser)
                parser.ws = self.ws
            if self.skipws is not None:
                old_skipws = parser.skipws
                parser.skipws = self.skipws
            try:
                for e in self.nodes:
                    try:
                        result = e.parse(parser)
                        if result is not None:
                            match = True
                            result = [result]
                            break
                        if falsy:
                            # matched, nothing to report: the choice is decided
                            match = True
                            break
                    except NoMatch:
                        parser.position = c_pos
            finally:
                if self.ws is not None:
                    parser.ws = old_ws
                if self.skipws is not None:
                    parser.skipws = old_skipws
            if not match:
                parser._nm_raise(self, c_pos, parser)
            return result

        def rep_parse(one_or_more):
            def _parse(self, parser):
                results = []
                first = True
                if self.eolterm:
                    old_eolterm = parser.eolterm
                    parser.eolterm = self.eolterm
                p = self.nodes[0].parse
                sep = self.sep.parse if self.sep else None
                n = 0
                try:
                    while True:
                        try:
                            c_pos = parser.position
                            if sep and n:
                                sep_result = sep(parser)
                                if sep_result:
                                    results.append(sep_result)
                            result = p(parser)
                            if parser.position == c_pos:
                                break           # no progress
                            if result:
                                results.append(result)
                            n += 1
                            first = False
                        except NoMatch:
                            parser.position = c_pos
                            if first and one_or_more:
                                raise
                            break
                finally:
                    if self.eolterm:
                        parser.eolterm = old_eolterm
                return results
            return _parse
        todo = []
        if wsr:
            todo.append((arpeggio.Sequence, seq_parse))
        if wsr or falsy:
            todo.append((arpeggio.OrderedChoice, oc_parse))
        if falsy:
            todo.append((arpeggio.ZeroOrMore, rep_parse(False)))
            todo.append((arpeggio.OneOrMore, rep_parse(True)))
        for cls, fn in todo:
            self.saved.append((cls, cls.__dict__['_parse']))
            cls._parse = fn
        return self

    def __exit__(self, *a):
        for cls, fn in self.saved:
            cls._parse = fn
        self.saved = []
        return False

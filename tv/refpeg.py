"""Throw-away prototype: grammar AST, printer, reference PEG interpreter, model builder."""
import re
from dataclasses import dataclass, field
from typing import Any, List, Optional as Opt_

# ---------------- AST ----------------
@dataclass
class Lit:
    s: str
    suppress: bool = False
@dataclass
class Re:
    pat: str
    suppress: bool = False
@dataclass
class Ref:
    name: str
    suppress: bool = False
@dataclass
class Seq:
    items: list
    suppress: bool = False
    paren: bool = False      # print redundant parentheses around the sequence: ('a'-) is the same expression as 'a'-
@dataclass
class Choice:
    alts: list
    suppress: bool = False
@dataclass
class Opt:
    e: Any
    suppress: bool = False
@dataclass
class Rep:
    e: Any
    min: int = 0
    sep: Any = None
    eolterm: bool = False
    suppress: bool = False
@dataclass
class Unord:
    items: list
    suppress: bool = False
@dataclass
class And:
    e: Any
    suppress: bool = False
@dataclass
class Not:
    e: Any
    suppress: bool = False
@dataclass
class ObjRef:
    cls: str
    rule: str = 'ID'
@dataclass
class Assign:
    attr: str
    op: str            # '=', '+=', '*=', '?='
    rhs: Any           # Lit | Re | Ref | ObjRef
    sep: Any = None
    eolterm: bool = False
    suppress: bool = False
@dataclass
class Rule:
    name: str
    body: Any
    skipws: Any = None   # None/True/False
    ws: Any = None       # None or str (already decoded chars)
@dataclass
class Grammar:
    rules: List[Rule]
    def rule(self, n):
        for r in self.rules:
            if r.name == n:
                return r
        return None

BASE = {
    'ID': r"[^\d\W]\w*\b",
    'BOOL': r"(True|true|False|false|0|1)\b",
    'INT': r"[-+]?[0-9]+",
    'FLOAT': r"[+-]?(\d+(\.\d*)?|\.\d+)([eE][+-]?\d+)?(?<=[\w\.])(?![\w\.])",
    'STRICTFLOAT': r"[+-]?(((\d+\.(\d*)?|\.\d+)([eE][+-]?\d+)?)|((\d+)([eE][+-]?\d+)))(?<=[\w\.])(?![\w\.])",
    'STRING': r'("(\\"|[^"])*")|(\'(\\\'|[^\'])*\')',
}
BASE_CHOICE = {'NUMBER': ['STRICTFLOAT', 'INT'], 'BASETYPE': ['NUMBER', 'FLOAT', 'BOOL', 'ID', 'STRING']}
BASE_NAMES = list(BASE) + list(BASE_CHOICE)

def conv_base(name, text):
    if name == 'BOOL':
        return text == '1' or text.lower() == 'true'
    if name == 'INT':
        return int(text)
    if name in ('FLOAT', 'STRICTFLOAT'):
        return float(text)
    if name == 'STRING':
        q = text[0]
        return text[1:-1].replace('\\' + q, q)
    return text

# ---------------- printer ----------------
# spelling of string literals in the printed grammar: 0 plain; 1 first character, 2 last character, 3 every word
# character written as an escape sequence (\\xNN / \\uNNNN). The literal's value is the same in all spellings.
LIT_VARIANT = 0


def _esc(c):
    return '\\x%02x' % ord(c) if ord(c) < 256 else '\\u%04x' % ord(c)


def q(s):
    chars = []
    for k, c in enumerate(s):
        esc = ord(c) < 0x10000 and c not in "\\'" and (
            (LIT_VARIANT == 1 and k == 0) or (LIT_VARIANT == 2 and k == len(s) - 1) or
            (LIT_VARIANT == 3 and (c.isalnum() or c == '_')))
        if esc:
            chars.append(_esc(c))
        else:
            chars.append(c.replace('\\', '\\\\').replace("'", "\\'"))
    return "'" + ''.join(chars) + "'"

def pr_simple(e):
    if isinstance(e, Lit):
        return q(e.s)
    if isinstance(e, Re):
        return '/' + e.pat.replace('/', '\\/') + '/'
    raise TypeError(e)

def pr_mods(sep, eolterm):
    parts = []
    if sep is not None:
        parts.append(pr_simple(sep))
    if eolterm:
        parts.append('eolterm')
    return '[' + ' '.join(parts) + ']' if parts else ''

def pr(e, top=False):
    s = pr_(e)
    if getattr(e, 'suppress', False):
        if isinstance(e, (Seq, Choice)):
            s = '(' + s + ')'
        s += '-'
    if isinstance(e, Seq) and e.paren:
        s = '(' + s + ')'
    return s

def pr_(e):
    if isinstance(e, (Lit, Re)):
        return pr_simple(e)
    if isinstance(e, Ref):
        return e.name
    if isinstance(e, Seq):
        return ' '.join(par(x, (Choice,)) for x in e.items)
    if isinstance(e, Choice):
        return ' | '.join(par(x, ()) for x in e.alts)
    if isinstance(e, Opt):
        return par_inner(e.e) + '?'
    if isinstance(e, Rep):
        return par_inner(e.e) + ('+' if e.min else '*') + pr_mods(e.sep, e.eolterm)
    if isinstance(e, Unord):
        return '(' + ' '.join(par(x, (Choice, Seq)) for x in e.items) + ')#'
    if isinstance(e, And):
        return '&' + par(e.e, (Seq, Choice, Assign, Opt, Rep))
    if isinstance(e, Not):
        return '!' + par(e.e, (Seq, Choice, Assign, Opt, Rep))
    if isinstance(e, Assign):
        if isinstance(e.rhs, ObjRef):
            rhs = '[' + e.rhs.cls + (':' + e.rhs.rule if e.rhs.rule != 'ID' else '') + ']'
        elif isinstance(e.rhs, Ref):
            rhs = e.rhs.name
        else:
            rhs = pr_simple(e.rhs)
        return e.attr + e.op + rhs + pr_mods(e.sep, e.eolterm)
    raise TypeError(e)

def par_inner(x):
    """operand of ? * +: a suppressed operand needs parentheses ('x'-+ is not textX; ('x'-)+ is)"""
    if getattr(x, 'suppress', False):
        return '(' + pr(x) + ')'
    return par(x, (Seq, Choice, Assign, Rep, Opt, And, Not, Unord))


def par(x, kinds):
    s = pr(x)
    if isinstance(x, kinds) and not getattr(x, 'suppress', False):
        return '(' + s + ')'
    return s

def ws_lit(ws):
    return ws.replace('\n', '\\n').replace('\t', '\\t').replace('\r', '\\r')

def pr_grammar(g):
    out = []
    for r in g.rules:
        params = []
        if r.skipws is True:
            params.append('skipws')
        if r.skipws is False:
            params.append('noskipws')
        if r.ws is not None:
            params.append("ws='" + ws_lit(r.ws) + "'")
        out.append(r.name + ('[' + ', '.join(params) + ']' if params else '') + ':\n    ' + pr(r.body) + '\n;')
    return '\n'.join(out) + '\n'

# ---------------- analyses ----------------
def nullable(e):
    """can e succeed without consuming a character (conservative, references are assumed non-nullable)"""
    if isinstance(e, (Opt, And, Not)):
        return True
    if isinstance(e, Rep):
        return e.min == 0 or nullable(e.e)
    if isinstance(e, (Seq, Unord)):
        return all(nullable(x) for x in e.items)
    if isinstance(e, Choice):
        return any(nullable(x) for x in e.alts)
    if isinstance(e, Assign):
        return e.op in ('*=', '?=')
    if isinstance(e, Lit):
        return e.s == ''
    return False


def assigns_in(e):
    """Assignments directly in a rule body (not through references)."""
    if isinstance(e, Assign):
        yield e
    elif isinstance(e, (Seq, Unord)):
        for x in e.items:
            yield from assigns_in(x)
    elif isinstance(e, Choice):
        for x in e.alts:
            yield from assigns_in(x)
    elif isinstance(e, (Opt, Rep, And, Not)):
        yield from assigns_in(e.e)

def refs_in(e):
    if isinstance(e, Ref):
        yield e
    elif isinstance(e, (Seq, Unord)):
        for x in e.items:
            yield from refs_in(x)
    elif isinstance(e, Choice):
        for x in e.alts:
            yield from refs_in(x)
    elif isinstance(e, (Opt, Rep, And, Not)):
        yield from refs_in(e.e)

def rule_kinds(g):
    kinds = {}
    for r in g.rules:
        kinds[r.name] = 'common' if any(True for _ in assigns_in(r.body)) else 'match'
    changed = True
    while changed:
        changed = False
        for r in g.rules:
            if kinds[r.name] == 'match':
                for ref in refs_in(r.body):
                    if ref.name in kinds and kinds[ref.name] != 'match':
                        kinds[r.name] = 'abstract'
                        changed = True
                        break
    return kinds

# multiplicity: max number of values one object can collect: 0,1,2(many)
def attr_mult(body):
    def cnt(e):
        # returns dict attr -> (max count capped 2, always_list)
        if isinstance(e, Assign):
            if e.op in ('+=', '*='):
                return {e.attr: 2}
            return {e.attr: 1}
        if isinstance(e, (Seq, Unord)):
            d = {}
            for x in e.items:
                for k, v in cnt(x).items():
                    d[k] = min(2, d.get(k, 0) + v)
            return d
        if isinstance(e, Choice):
            d = {}
            for x in e.alts:
                for k, v in cnt(x).items():
                    d[k] = max(d.get(k, 0), v)
            return d
        if isinstance(e, Opt):
            return cnt(e.e)
        if isinstance(e, Rep):
            return {k: 2 for k in cnt(e.e)}
        if isinstance(e, (And, Not)):
            return {}
        return {}
    return cnt(body)

# ---------------- reference interpreter ----------------
class Fail(Exception):
    pass


def is_keyword_like(lit):
    return re.fullmatch(r'[^\d\W]\w*', lit) is not None

@dataclass
class Tok:
    kind: str      # 'lit' | 're' | base type name
    text: str
    start: int
    end: int
    m: Any = None
    ws: Any = None          # whitespace set in force when the token was matched ('' = no skipping)
    in_comment: bool = False
    before: int = -1        # position before whitespace/comments were skipped
@dataclass
class Node:
    rule: str
    children: list
    start: int
    end: int
@dataclass
class Asg:
    attr: str
    op: str
    items: list     # list of value-trees (Tok|Node), separators excluded
    objref: Any
    start: int
    end: int

@dataclass
class Ctx:
    skipws: bool
    ws: str
    eolterm: bool = False
    in_comment: bool = False
    def eff_ws(self):
        if self.eolterm:
            return self.ws.replace('\n', '').replace('\r', '')
        return self.ws

class RefParser:
    def __init__(self, g, text, skipws=True, ws=None, emulate=(), ignore_case=False, autokwd=False):
        self.g = g
        self.ignore_case = ignore_case
        self.autokwd = autokwd
        self.emulate = set(emulate)
        self.t = text
        self.base_ctx = Ctx(skipws, ws if ws is not None else '\t\n\r ')
        self.kinds = rule_kinds(g)
        self.steps = 0
        # every terminal match of the derivation built so far, suppressed ones included (start, end): the text an object
        # matched begins at its first and ends at its last terminal, whether or not the terminal is kept in the tree
        self.tlog = []

    def mk(self, tok, ctx, before):
        tok.ws = ctx.eff_ws() if ctx.skipws else ''
        tok.in_comment = ctx.in_comment
        tok.before = before
        return tok

    def run(self):
        root = self.g.rules[0]
        pos, tree = self.rule(root, 0, self.base_ctx)
        pos = self.skip(pos, self.base_ctx)
        if pos != len(self.t):
            raise Fail()
        return tree

    # whitespace + comments before a terminal
    def skip(self, pos, ctx):
        n0 = len(self.tlog)
        try:
            return self.skip_(pos, ctx)
        finally:
            del self.tlog[n0:]

    def skip_(self, pos, ctx):
        t = self.t
        if ctx.skipws:
            w = ctx.eff_ws()
            while pos < len(t) and t[pos] in w:
                pos += 1
        if not ctx.in_comment:
            cr = self.g.rule('Comment')
            if cr is not None:
                while True:
                    c2 = Ctx(ctx.skipws, ctx.ws, ctx.eolterm, True)
                    try:
                        p2, _ = self.rule(cr, pos, c2)
                    except Fail:
                        break
                    if p2 == pos:
                        break
                    pos = p2
                    if ctx.skipws:
                        w = ctx.eff_ws()
                        while pos < len(t) and t[pos] in w:
                            pos += 1
        return pos

    def rule(self, r, pos, ctx):
        c = ctx
        if r.skipws is not None or r.ws is not None:
            c = Ctx(ctx.skipws if r.skipws is None else r.skipws, ctx.ws if r.ws is None else r.ws, ctx.eolterm, ctx.in_comment)
        n0 = len(self.tlog)
        p, trees = self.ex(r.body, pos, c)
        trees = flat(trees)
        st = trees[0].start if trees else p
        en = trees[-1].end if trees else p
        nd = Node(r.name, trees, st, en)
        toks = self.tlog[n0:]
        # the matched text (suppressed terminals included); (start, end) above is the text of the terminals that are kept
        nd.sstart, nd.send = (toks[0][0], max(max(t_[1] for t_ in toks), en)) if toks else (st, en)
        return p, nd

    def base(self, name, pos, ctx):
        if name in BASE_CHOICE:
            for alt in BASE_CHOICE[name]:
                try:
                    return self.base(alt, pos, ctx)
                except Fail:
                    pass
            raise Fail()
        p = self.skip(pos, ctx)
        m = re.compile(BASE[name], re.M).match(self.t, p)
        if not m:
            raise Fail()
        if m.end() > p:
            self.tlog.append((p, m.end(), 'base', name))
        return m.end(), [self.mk(Tok(name, m.group(), p, m.end(), m), ctx, pos)]

    def ex(self, e, pos, ctx):
        self.steps += 1
        if self.steps > 200000:
            raise RecursionError('ref budget')
        n0 = len(self.tlog)
        try:
            p, trees = self.ex_(e, pos, ctx)
        except Fail:
            del self.tlog[n0:]
            raise
        if isinstance(e, And):
            del self.tlog[n0:]
        if getattr(e, 'suppress', False):
            trees = []
        return p, trees

    def ex_(self, e, pos, ctx):
        t = self.t
        if isinstance(e, Lit):
            p = self.skip(pos, ctx)
            n = len(e.s)
            ok = (t[p:p + n].lower() == e.s.lower()) if self.ignore_case else t.startswith(e.s, p)
            if ok and self.autokwd and is_keyword_like(e.s) and p + n < len(t) and re.match(r'\w', t[p + n]):
                ok = False      # keyword-like literals match on word boundaries only
            if ok:
                tk = self.mk(Tok('lit', e.s, p, p + n), ctx, pos)
                tk.written = t[p:p + n]
                if n:
                    self.tlog.append((p, p + n, 'lit', e.s))
                return p + n, [tk]
            raise Fail()
        if isinstance(e, Re):
            p = self.skip(pos, ctx)
            m = re.compile(e.pat, re.M | (re.I if self.ignore_case else 0)).match(t, p)
            if not m:
                raise Fail()
            if m.end() > p:
                self.tlog.append((p, m.end(), 're', m.group()))
            return m.end(), ([self.mk(Tok('re', m.group(), p, m.end(), m), ctx, pos)] if m.end() > p else [])
        if isinstance(e, Ref):
            if e.name in BASE_NAMES and self.g.rule(e.name) is None:
                return self.base(e.name, pos, ctx)
            r = self.g.rule(e.name)
            p, node = self.rule(r, pos, ctx)
            return p, [node]
        if isinstance(e, Seq):
            out = []
            p = pos
            for x in e.items:
                p, tr = self.ex(x, p, ctx)
                out.extend(tr)
            return p, out
        if isinstance(e, Choice):
            for x in e.alts:
                try:
                    return self.ex(x, pos, ctx)
                except Fail:
                    pass
            raise Fail()
        if isinstance(e, Opt):
            try:
                return self.ex(e.e, pos, ctx)
            except Fail:
                return pos, []
        if isinstance(e, Rep):
            return self.rep(e.e, e.min, e.sep, e.eolterm, pos, ctx)
        if isinstance(e, Unord):
            return self.unord(e, pos, ctx)
        if isinstance(e, And):
            self.ex(e.e, pos, ctx)
            return pos, []
        if isinstance(e, Not):
            try:
                self.ex(e.e, pos, ctx)
            except Fail:
                return pos, []
            raise Fail()
        if isinstance(e, Assign):
            return self.assign(e, pos, ctx)
        raise TypeError(e)

    def rep(self, body, mn, sep, eolterm, pos, ctx, collect_sep=True):
        c = ctx
        if eolterm:
            c = Ctx(ctx.skipws, ctx.ws, True, ctx.in_comment)
        out = []
        p = pos
        n = 0
        while True:
            nlog = len(self.tlog)
            try:
                p2 = p
                sep_tr = []
                if sep is not None and n > 0:
                    p2, sep_tr = self.ex(sep, p2, c)
            except Fail:
                break
            try:
                p3, tr = self.ex(body, p2, c)
            except Fail:
                if 'dangling-separator' in self.emulate and collect_sep:
                    out.extend(sep_tr)
                else:
                    del self.tlog[nlog:]
                break
            if p3 == p:
                del self.tlog[nlog:]
                break          # no progress: stop (PEG would loop)
            if collect_sep:
                out.extend(sep_tr)
            out.append(('item', tr))
            p = p3
            n += 1
        if n < mn:
            raise Fail()
        flat_out = []
        for x in out:
            if isinstance(x, tuple):
                flat_out.extend(x[1])
            else:
                flat_out.append(x)
        return p, flat_out

    def unord(self, e, pos, ctx):
        remaining = list(e.items)
        out = []
        p = pos
        while remaining:
            progressed = False
            failed = False
            for x in list(remaining):
                try:
                    p2, tr = self.ex(x, p, ctx)
                except Fail:
                    failed = True
                    continue
                if p2 > p:
                    out.extend(tr)
                    p = p2
                    remaining.remove(x)
                    progressed = True
                    break
            if not progressed:
                if failed:
                    raise Fail()
                break
        return p, out

    def assign(self, e, pos, ctx):
        rhs = e.rhs
        objref = None
        if isinstance(rhs, ObjRef):
            objref = rhs
            rhs = Ref(rhs.rule)
        if e.op == '=':
            p, tr = self.ex(rhs, pos, ctx)
            return p, [Asg(e.attr, e.op, tr, objref, tr[0].start if tr else p, tr[-1].end if tr else p)]
        if e.op == '?=':
            try:
                p, tr = self.ex(rhs, pos, ctx)
            except Fail:
                return pos, []
            return p, [Asg(e.attr, e.op, tr, objref, tr[0].start if tr else p, tr[-1].end if tr else p)]
        # += / *=
        c = ctx
        if e.eolterm:
            c = Ctx(ctx.skipws, ctx.ws, True, ctx.in_comment)
        items = []
        seps = []
        p = pos
        n = 0
        dangling_end = None
        while True:
            nlog = len(self.tlog)
            try:
                p2 = p
                sp = []
                if e.sep is not None and n > 0:
                    p2, sp = self.ex(e.sep, p2, c)
            except Fail:
                break
            try:
                p3, tr = self.ex(rhs, p2, c)
            except Fail:
                if 'dangling-separator' in self.emulate and sp:
                    dangling_end = sp[-1].end
                else:
                    del self.tlog[nlog:]
                break
            if p3 == p:
                del self.tlog[nlog:]
                break
            items.append(tr)
            seps.append(sp)
            p = p3
            n += 1
        if e.op == '+=' and n == 0:
            raise Fail()
        if n == 0:
            return p, []
        # end of the last terminal that is kept in the tree (a suppressed tail of the last item is not)
        end = dangling_end if dangling_end is not None else (items[-1][-1].end if items[-1] else p)
        if 'dangling-separator' in self.emulate and items[-1]:
            # a separator left dangling inside the last item extends that item and therefore the list
            end = max(end, items[-1][-1].end)
        a = Asg(e.attr, e.op, items, objref, items[0][0].start if items[0] else pos, end)
        a.seps = seps
        return p, [a]

def all_tokens(t):
    """every token of a derivation tree (assignment values included), in input order"""
    out = []

    def walk(x):
        if isinstance(x, Tok):
            out.append(x)
        elif isinstance(x, Node):
            for c in x.children:
                walk(c)
        elif isinstance(x, Asg):
            for it in x.items:
                walk(it)
            for sp in getattr(x, 'seps', []):
                walk(sp)
        elif isinstance(x, list):
            for y in x:
                walk(y)
    walk(t)
    out.sort(key=lambda k: k.start)
    return out


def leaves(t):
    if isinstance(t, Tok):
        return [t]
    out = []
    if isinstance(t, Node):
        for c in t.children:
            out.extend(leaves(c))
    return out


def flat(x):
    out = []
    for y in x:
        if isinstance(y, list):
            out.extend(flat(y))
        else:
            out.append(y)
    return out

# ---------------- model building ----------------
class RObj:
    def __init__(self, cls):
        self.cls = cls
        self.attrs = {}
        self.start = self.end = None

def attr_types(g, rule):
    """attr -> type name per textX rule: base type name / 'STRING' for literal / rule name / 'BOOL' / 'OBJECT' on conflict."""
    types = {}
    for a in assigns_in(rule.body):
        if a.op == '?=':
            tname = 'BOOL'
        elif isinstance(a.rhs, ObjRef):
            tname = a.rhs.cls
        elif isinstance(a.rhs, Ref):
            tname = a.rhs.name
        else:
            tname = 'STRING'
        if a.attr in types and types[a.attr] != tname:
            types[a.attr] = 'OBJECT'
        else:
            types.setdefault(a.attr, tname)
    return types

PYDEF = {'ID': '', 'BOOL': False, 'INT': 0, 'FLOAT': 0.0, 'STRICTFLOAT': 0.0, 'STRING': '', 'NUMBER': 0.0, 'BASETYPE': ''}

class Builder:
    def __init__(self, g, auto_init=True, use_regexp_group=False, emulate=()):
        self.g = g
        self.kinds = rule_kinds(g)
        self.auto_init = auto_init
        self.urg = use_regexp_group
        # names of known textX deviations to reproduce (used only to attribute a divergence to a mechanism)
        self.emulate = set(emulate)

    def tokval(self, tok):
        if tok.kind == 'lit':
            # under ignore_case the property leaves open whether a string literal's value is the grammar's
            # spelling or the text as written: 'lit-as-written' / 'kwlit-as-written' select the other readings
            if 'lit-as-written' in self.emulate or ('kwlit-as-written' in self.emulate and is_keyword_like(tok.text)):
                return getattr(tok, 'written', tok.text)
            return tok.text
        if tok.kind == 're':
            if self.urg and tok.m.re.groups == 1:
                return tok.m.group(1)
            return tok.text
        return conv_base(tok.kind, tok.text)

    def value(self, tree):
        """value of a Tok or Node when used as RHS / result."""
        if isinstance(tree, Tok):
            return self.tokval(tree)
        kind = self.kinds[tree.rule]
        if kind == 'common':
            return self.obj(tree)
        if kind == 'match':
            return self.matchval(tree)
        return self.abstract(tree)

    def matchval(self, node):
        ch = node.children
        if len(ch) == 1:
            return self.value_m(ch[0])
        return ''.join(str(self.value_m(c)) for c in ch)

    def value_m(self, c):
        if isinstance(c, Tok):
            return self.tokval(c)
        return self.matchval(c)

    def abstract(self, node):
        ch = node.children
        for c in ch:
            if isinstance(c, Node) and self.kinds[c.rule] != 'match':
                return self.value(c)
        if len(ch) == 1:
            return self.value(ch[0])
        nodes = [c for c in ch if isinstance(c, Node)]
        if 'abstract-all-match:first-nonterminal' in self.emulate:
            for c in nodes:
                if not self.tx_terminal(c.rule):
                    return self.value(c)
        if 'abstract-all-match:first-node' in self.emulate and nodes:
            return self.value(nodes[0])
        for k in range(len(nodes)):
            if 'abstract-all-match:node-%d' % k in self.emulate:
                return self.value(nodes[k])
        if 'abstract-all-match:first-multi-token-node' in self.emulate:
            for c in nodes:
                if len(leaves(c)) > 1:
                    return self.value(c)
        # only match rules / terminals were matched: the value is the concatenated matched TEXT (a base-type token
        # contributes what was written, not str() of its converted value)
        return ''.join(c.text if isinstance(c, Tok) else str(self.value_m(c)) for c in ch)

    def tx_terminal(self, rname, depth=0):
        """does textX's parse tree hold a Terminal for a match of this match rule (body is one literal / regex /
        base-type regex, possibly through single references)"""
        r = self.g.rule(rname)
        if r is None:
            return rname in BASE
        b = r.body
        if isinstance(b, (Lit, Re)):
            return True
        if isinstance(b, Ref) and depth < 10:
            return self.tx_terminal(b.name, depth + 1)
        return False

    def obj(self, node):
        rule = self.g.rule(node.rule)
        o = RObj(node.rule)
        o.start, o.end = node.start, node.end
        o.sstart, o.send = getattr(node, 'sstart', node.start), getattr(node, 'send', node.end)
        mult = attr_mult(rule.body)
        types = attr_types(self.g, rule)
        for a, m in mult.items():
            if m >= 2:
                o.attrs[a] = []
            else:
                t = types[a]
                if t in PYDEF and self.g.rule(t) is None:
                    if self.auto_init:
                        o.attrs[a] = PYDEF[t]
                    else:
                        o.attrs[a] = False if t == 'BOOL' and any(x.op == '?=' and x.attr == a for x in assigns_in(rule.body)) else None
                else:
                    o.attrs[a] = None
        for c in node.children:
            if isinstance(c, Asg):
                if c.op == '?=':
                    o.attrs[c.attr] = True
                elif c.op == '=':
                    v = self.rhsval(c.items, c)
                    if isinstance(o.attrs[c.attr], list) and mult[c.attr] >= 2:
                        o.attrs[c.attr].append(v)
                    else:
                        o.attrs[c.attr] = v
                else:
                    for it in c.items:
                        o.attrs[c.attr].append(self.rhsval(it, c))
        return o

    def rhsval(self, trees, asg):
        # trees: list of trees produced by the RHS (normally exactly one)
        if len(trees) == 1:
            v = self.value(trees[0])
        elif len(trees) == 0:
            v = None
        else:
            v = ''.join(str(self.value_m(t)) for t in trees)
        if asg.objref is not None:
            return ('REF', asg.objref.cls, v)
        return v

def dump_ref(v):
    if isinstance(v, RObj):
        return (v.cls, tuple(sorted((k, dump_ref(x)) for k, x in v.attrs.items())))
    if isinstance(v, list):
        return ('list', tuple(dump_ref(x) for x in v))
    if isinstance(v, tuple) and v and v[0] == 'REF':
        return v
    return (type(v).__name__, v)

def dump_tx(v, seen=None):
    cls = v.__class__
    if hasattr(cls, '_tx_attrs') and not isinstance(v, (str, int, float, bool)):
        items = []
        for k, a in cls._tx_attrs.items():
            x = getattr(v, k)
            if a.ref and not a.cont:
                if isinstance(x, list):
                    items.append((k, ('list', tuple(('REF', a.cls.__name__, getattr(y, 'name', None)) for y in x))))
                else:
                    items.append((k, ('REF', a.cls.__name__, getattr(x, 'name', None)) if x is not None else ('NoneType', None)))
            else:
                items.append((k, dump_tx(x)))
        return (cls.__name__, tuple(sorted(items)))
    if isinstance(v, list):
        return ('list', tuple(dump_tx(x) for x in v))
    return (type(v).__name__, v)


def dump_spans(v):
    """(class, start, end) of every object of a reference model, in traversal order"""
    out = []

    def walk(x):
        if isinstance(x, RObj):
            out.append((x.cls, x.start, x.end))
            for a in x.attrs.values():
                walk(a)
        elif isinstance(x, list):
            for y in x:
                walk(y)
    walk(v)
    return out


def unsuppressed(g):
    """a copy of the grammar without any suppression operator: its derivations show every matched token (suppression
    never changes what is matched, only what a match rule's value contains)"""
    import copy
    g2 = copy.deepcopy(g)

    def walk(e):
        if hasattr(e, 'suppress'):
            e.suppress = False
        for attr in ('items', 'alts'):
            for x in getattr(e, attr, []) or []:
                walk(x)
        for attr in ('e', 'sep', 'rhs'):
            x = getattr(e, attr, None)
            if x is not None and not isinstance(x, (str, bool, int)):
                walk(x)
    for rl in g2.rules:
        walk(rl.body)
    return g2


def comment_pattern(g):
    """regex of the Comment rule (the rule may be an alias of another match rule)"""
    cr = g.rule('Comment')
    if cr is None:
        return None
    b = cr.body
    while isinstance(b, Ref):
        b = g.rule(b.name).body
    return b.pat

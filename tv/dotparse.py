"""A strict recursive-descent parser for the Graphviz DOT language (just enough to decide well-formedness
and to list node / edge statements). Grammar: https://graphviz.org/doc/info/lang.html"""
import re


class DotError(Exception):
    pass


TOKEN = re.compile(r'''
    (?P<ws>\s+|//[^\n]*|/\*.*?\*/|^\#[^\n]*)
  | (?P<id>[A-Za-z_\u0080-￿][A-Za-z_0-9\u0080-￿]*)
  | (?P<num>-?(?:\.[0-9]+|[0-9]+(?:\.[0-9]*)?))
  | (?P<edgeop>->|--)
  | (?P<punct>[{}\[\];,=:])
''', re.X | re.S | re.M)


def tokenize(text):
    pos = 0
    out = []
    n = len(text)
    while pos < n:
        c = text[pos]
        if c == '"':
            # quoted string: only \" escapes the quote
            j = pos + 1
            while True:
                if j >= n:
                    raise DotError('unterminated string starting at offset %d: %r' % (pos, text[pos:pos + 40]))
                if text[j] == '\\' and j + 1 < n:
                    j += 2
                    continue
                if text[j] == '"':
                    break
                j += 1
            out.append(('str', text[pos + 1:j], pos))
            pos = j + 1
            continue
        if c == '<':
            depth = 0
            j = pos
            while j < n:
                if text[j] == '<':
                    depth += 1
                elif text[j] == '>':
                    depth -= 1
                    if depth == 0:
                        break
                j += 1
            if depth != 0:
                raise DotError('unbalanced HTML string starting at offset %d' % pos)
            out.append(('html', text[pos + 1:j], pos))
            pos = j + 1
            continue
        m = TOKEN.match(text, pos)
        if not m:
            raise DotError('illegal character %r at offset %d: %r' % (c, pos, text[max(0, pos - 20):pos + 20]))
        pos = m.end()
        if m.lastgroup == 'ws':
            continue
        out.append((m.lastgroup, m.group(), m.start()))
    return out


class Parser:
    def __init__(self, text):
        self.toks = tokenize(text)
        self.i = 0
        self.nodes = []      # (id, attrs dict)
        self.edges = []      # (from, to)
        self.text = text

    def peek(self):
        return self.toks[self.i] if self.i < len(self.toks) else ('eof', '', len(self.text))

    def next(self):
        t = self.peek()
        self.i += 1
        return t

    def expect(self, kind, val=None):
        t = self.next()
        if t[0] != kind or (val is not None and t[1] != val):
            raise DotError('expected %s %r, found %s %r at offset %d' % (kind, val, t[0], t[1][:30], t[2]))
        return t

    def is_id(self, t):
        return t[0] in ('id', 'num', 'str', 'html')

    def graph(self):
        t = self.next()
        if t[0] == 'id' and t[1].lower() == 'strict':
            t = self.next()
        if not (t[0] == 'id' and t[1].lower() in ('graph', 'digraph')):
            raise DotError('expected graph or digraph at offset %d' % t[2])
        if self.is_id(self.peek()):
            self.next()
        self.body()
        if self.peek()[0] != 'eof':
            raise DotError('trailing input at offset %d: %r' % (self.peek()[2], self.peek()[1][:30]))

    def body(self):
        self.expect('punct', '{')
        while True:
            t = self.peek()
            if t == ('punct', '}', t[2]):
                self.next()
                return
            if t[0] == 'eof':
                raise DotError('missing closing brace')
            self.stmt()
            if self.peek()[0] == 'punct' and self.peek()[1] == ';':
                self.next()

    def attr_list(self):
        attrs = {}
        while self.peek()[0] == 'punct' and self.peek()[1] == '[':
            self.next()
            while not (self.peek()[0] == 'punct' and self.peek()[1] == ']'):
                k = self.next()
                if not self.is_id(k):
                    raise DotError('expected attribute name at offset %d, found %r' % (k[2], k[1][:30]))
                self.expect('punct', '=')
                v = self.next()
                if not self.is_id(v):
                    raise DotError('expected attribute value at offset %d, found %r' % (v[2], v[1][:30]))
                attrs[k[1]] = v[1]
                if self.peek()[0] == 'punct' and self.peek()[1] in ';,':
                    self.next()
            self.next()
        return attrs

    def node_id(self):
        t = self.next()
        if not self.is_id(t):
            raise DotError('expected a node id at offset %d, found %s %r' % (t[2], t[0], t[1][:30]))
        if self.peek()[0] == 'punct' and self.peek()[1] == ':':
            self.next()
            p = self.next()
            if not self.is_id(p):
                raise DotError('expected a port at offset %d' % p[2])
            if self.peek()[0] == 'punct' and self.peek()[1] == ':':
                self.next()
                self.next()
        return t[1]

    def stmt(self):
        t = self.peek()
        if t[0] == 'id' and t[1].lower() in ('graph', 'node', 'edge') and \
                self.toks[self.i + 1][0] == 'punct' and self.toks[self.i + 1][1] == '[':
            self.next()
            self.attr_list()
            return
        if (t[0] == 'id' and t[1].lower() == 'subgraph') or (t[0] == 'punct' and t[1] == '{'):
            self.subgraph()
            ends = ['<subgraph>']
        else:
            nid = self.node_id()
            if self.peek()[0] == 'punct' and self.peek()[1] == '=':
                self.next()
                v = self.next()
                if not self.is_id(v):
                    raise DotError('expected a value at offset %d' % v[2])
                return
            ends = [nid]
        if self.peek()[0] == 'edgeop':
            chain = [ends[0]]
            while self.peek()[0] == 'edgeop':
                self.next()
                t2 = self.peek()
                if (t2[0] == 'id' and t2[1].lower() == 'subgraph') or (t2[0] == 'punct' and t2[1] == '{'):
                    self.subgraph()
                    chain.append('<subgraph>')
                else:
                    chain.append(self.node_id())
            self.attr_list()
            for a, b in zip(chain, chain[1:]):
                self.edges.append((a, b))
            return
        attrs = self.attr_list()
        if ends[0] != '<subgraph>':
            self.nodes.append((ends[0], attrs))

    def subgraph(self):
        t = self.peek()
        if t[0] == 'id' and t[1].lower() == 'subgraph':
            self.next()
            if self.is_id(self.peek()):
                self.next()
        self.body()


def parse(text):
    p = Parser(text)
    p.graph()
    return p


def record_label_ok(label):
    """record-shape label: braces balanced, ignoring escaped characters"""
    depth = 0
    i = 0
    while i < len(label):
        c = label[i]
        if c == '\\':
            i += 2
            continue
        if c == '{':
            depth += 1
        elif c == '}':
            depth -= 1
            if depth < 0:
                return False
        i += 1
    return depth == 0

"""Throw-away prototype: random grammar + sentence generator (F0 core, optional F1 shapes)."""
import random
from tv.refpeg import *

RE_MENU = [
    (r'[a-z]+\d', lambda r: ''.join(r.choice('abcxyz') for _ in range(r.randint(1, 3))) + r.choice('0123456789')),
    (r'\d+-\d+', lambda r: f"{r.randint(0, 99)}-{r.randint(0, 99)}"),
    (r'#[0-9a-f]{2}', lambda r: '#' + ''.join(r.choice('0123456789abcdef') for _ in range(2))),
    (r'[A-Z]\w*', lambda r: r.choice('ABCXYZ') + ''.join(r.choice('abc_9') for _ in range(r.randint(0, 3)))),
    (r'<(\w+)>', lambda r: '<' + ''.join(r.choice('abc12') for _ in range(r.randint(1, 3))) + '>'),
    # regular expressions without any metacharacter (they look like plain words but are regex matches: the value is
    # the text as written)
    (r'kgs', lambda r: 'kgs'),
    (r'Unit_9', lambda r: 'Unit_9'),
]
# separators that may match the empty string (only ever used as repetition separators)
SEP_RE_MENU = [
    (r',?', lambda r: r.choice([',', ',', ''])),
    (r';?', lambda r: r.choice([';', ''])),
    (r'(and)?', lambda r: r.choice(['and', ''])),
]
SYMS = ['{', '}', ',', ';', '->', ':', '(', ')', '=', '@', '%%']

class G:
    def __init__(self, rnd, f1=0.0, pskip=0.2, pws=0.1, pcomment=0.3):
        self.r = rnd
        self.f1 = f1
        self.pskip, self.pws, self.pcomment = pskip, pws, pcomment
        self.kw = 0
        self.used_features = set()

    lit_style = 'plain'

    # probability that a keyword position re-uses the text of a keyword issued before (the same literal then occurs in
    # several roles of one grammar: sequence head, separator, assigned value, suppressed element, match-rule body)
    preuse = 0.0
    # probability that the separator of a list assignment is a regex that may match the empty string
    poptsep = 0.0

    def newkw(self):
        if self.preuse and self.r.random() < self.preuse:
            pool = getattr(self, 'issued', []) + ['and', 'By']
            self.used_features.add('keyword-reused')
            return Lit(self.r.choice(pool))
        k = self._newkw()
        self.issued = getattr(self, 'issued', []) + [k.s]
        return k

    def _newkw(self):
        self.kw += 1
        n = str(self.kw)
        if self.lit_style == 'rich':
            form = self.r.choice(['k%s', 'Kw%s', 'key_%s', 'then%s:', 'and-then%s', '#inc%s', '%sd', 'a%s.b', 'for each%s',
                                  '\u043a\u043b%s', '\u00e9t\u00e9%s', 'x%sY', '->%s', '@%s@', 'end%s;', 'K%s', 'if%s'])
            return Lit(form % n)
        return Lit(self.r.choice(['k', 'kw', 'key', 'K']) + n)

    def grammar(self):
        r = self.r
        ncommon = r.randint(2, 4)
        nmatch = r.randint(1, 3)
        nabs = r.randint(0, 2)
        self.common = [f'C{i}' for i in range(ncommon)]
        self.match = [f'M{i}' for i in range(nmatch)]
        self.abs = [f'A{i}' for i in range(nabs)]
        rules = []
        # root
        rules.append(Rule('Model', self.common_body(0, root=True)))
        for i, n in enumerate(self.common):
            rules.append(Rule(n, self.common_body(i + 1)))
        for i, n in enumerate(self.abs):
            rules.append(Rule(n, self.abstract_body(i)))
        for i, n in enumerate(self.match):
            rules.append(Rule(n, self.match_body(i)))
        # modifiers
        for rl in rules[1:]:
            if r.random() < self.pskip:
                rl.skipws = r.choice([True, False])
                self.used_features.add('skipws-mod')
            elif r.random() < self.pws:
                rl.ws = r.choice([' ', ' \t', '\n ', ' \t\n', ' \t\r\n', '\r\n ', ' \r'])
                self.used_features.add('ws-mod')
            else:
                continue
            if not isinstance(rl.body, (Seq, Choice, Lit, Re)):
                # the rule body is a repetition / optional / unordered group / rule reference
                self.used_features.add('modifier-on-non-sequence-body')
        if r.random() < self.pcomment:
            rules.append(Rule('Comment', Re(r'//.*$') if r.random() < 0.7 else Re(r'/\*(.|\n)*?\*/')))
            self.used_features.add('comment')
        return Grammar(rules)

    # which rules may be referenced from common rule index i (to keep derivations finite: only later ones)
    def later_common(self, i):
        return self.common[i:]

    def rhs(self, i):
        r = self.r
        c = r.random()
        if c < 0.06 and getattr(self, 'with_refs', True):
            # link reference (resolved by a permissive provider installed by pegdiff.make_mm)
            self.used_features.add('link-ref')
            return ObjRef(r.choice(self.common))
        if c < 0.35:
            return Ref(r.choice(['ID', 'INT', 'STRING', 'BOOL', 'FLOAT', 'STRICTFLOAT', 'NUMBER', 'BASETYPE']))
        if c < 0.45:
            return self.newkw()
        if c < 0.55:
            return Re(r.choice(RE_MENU)[0])
        if c < 0.75 and self.later_common(i):
            return Ref(r.choice(self.later_common(i)))
        if c < 0.85 and self.abs:
            return Ref(r.choice(self.abs))
        return Ref(r.choice(self.match))

    def assign(self, i, attrs, in_rep=False):
        r = self.r
        attr = r.choice(attrs)
        op = r.choices(['=', '+=', '*=', '?='], [5, 2, 2, 0 if in_rep else 1])[0]
        rhs = self.rhs(i)
        if op == '?=':
            self.nb = getattr(self, 'nb', 0) + 1
            attr = f'b{self.nb}'
        if isinstance(rhs, ObjRef):
            # a reference attribute of its own (mixing references and values in one attribute is not meaningful)
            self.nr = getattr(self, 'nr', 0) + 1
            attr = f'r{self.nr}'
            if op == '?=':
                op = '='
        a = Assign(attr, op, rhs)
        if op in ('+=', '*=') and r.random() < 0.5:
            a.sep = Lit(r.choice([',', ';', '|', ',', 'and', 'By']))
            if self.poptsep and r.random() < self.poptsep:
                a.sep = Re(r.choice(SEP_RE_MENU)[0])
                self.used_features.add('separator-may-match-empty')
        if op in ('+=', '*=') and r.random() < 0.1:
            a.eolterm = True
            self.used_features.add('eolterm')
        return a

    def item(self, i, attrs, depth, in_rep=False):
        r = self.r
        c = r.random()
        if depth > 1 or c < 0.5:
            a = self.assign(i, attrs, in_rep)
            if a.op == '*=' or a.op == '?=':
                # nullable on its own -> guard with keyword so alternatives/bodies stay non-nullable
                return Seq([self.newkw(), a])
            return a
        if c < 0.5 + getattr(self, 'psupref', 0.025):
            self.used_features.add('rule-ref-suppress')
            return Ref(r.choice(self.match), suppress=True)
        if c < 0.55:
            return Lit(r.choice(SYMS))
        if c < 0.65:
            return Opt(self.seq(i, attrs, depth + 1, in_rep))
        if c < 0.75:
            rp = Rep(self.seq(i, attrs, depth + 1, True), r.randint(0, 1))
            if r.random() < 0.4:
                rp.sep = Lit(r.choice([',', ';', ',', 'and']))
            if r.random() < 0.1:
                rp.eolterm = True
                self.used_features.add('eolterm')
            return rp
        if c < 0.87:
            return Choice([self.seq(i, attrs, depth + 1, in_rep) for _ in range(r.randint(2, 3))])
        if c < 0.93:
            self.used_features.add('unordered')
            return Unord([self.seq(i, attrs, depth + 1, in_rep) for _ in range(r.randint(2, 3))])
        if c < 0.97:
            self.used_features.add('predicate')
            return Seq([Not(self.newkw()), self.assign(i, attrs, in_rep)]) if r.random() < 0.5 else Seq([And(Ref('ID')), self.assign(i, attrs, in_rep)])
        return self.assign(i, attrs, in_rep)

    def seq(self, i, attrs, depth, in_rep=False):
        """non-nullable sequence: starts with a fresh keyword."""
        r = self.r
        items = [self.newkw()]
        for _ in range(r.randint(1, 2)):
            items.append(self.item(i, attrs, depth, in_rep))
        return Seq(items)

    def common_body(self, i, root=False):
        r = self.r
        attrs = [f'a{j}' for j in range(r.randint(1, 3))]
        items = [self.newkw()]
        for _ in range(r.randint(1, 3)):
            items.append(self.item(i, attrs, 0))
        if not any(True for _ in assigns_in(Seq(items))):
            items.append(self.assign(i, attrs))
        body = Seq(items)
        if not root and r.random() < 0.15:
            # rule body is a choice of sequences
            items2 = [self.newkw(), self.assign(i, attrs)]
            body = Choice([body, Seq(items2)])
        return body

    def abstract_body(self, i):
        r = self.r
        alts = []
        n = r.randint(2, 4)
        later_abs = self.abs[i + 1:]
        for _ in range(n):
            c = r.random()
            if c < 0.45:
                alts.append(Ref(r.choice(self.common)))
            elif c < 0.55 and later_abs:
                alts.append(Ref(r.choice(later_abs)))
            elif c < 0.7:
                alts.append(Ref(r.choice(self.match)))
            elif c < 0.8:
                alts.append(Ref(r.choice(['INT', 'STRING', 'ID', 'FLOAT', 'BOOL'])))
            elif c < 0.9:
                alts.append(Seq([self.newkw(), Ref(r.choice(self.common)), Ref(r.choice(self.match))]))
            elif c < 0.95:
                alts.append(Seq([self.newkw(), Ref(r.choice(self.match)), Ref(r.choice(self.common))]))
                self.used_features.add('abs-match-before-common')
            else:
                # a match rule (possibly a non-terminal one) before a reference to another abstract rule
                tgt = Ref(r.choice(later_abs)) if later_abs else Ref(r.choice(self.common))
                alts.append(Seq([Ref(r.choice(self.match)), self.newkw(), tgt]))
                self.used_features.add('abs-match-before-abstract')
        if not any(isinstance(a, Ref) and a.name in self.common or isinstance(a, Seq) for a in alts):
            alts.insert(0, Ref(r.choice(self.common)))
        return Choice(alts) if len(alts) > 1 else alts[0]

    def match_body(self, i):
        r = self.r
        c = r.random()
        later = self.match[i + 1:]
        if c < 0.08:
            # a keyword rule: the whole body is one string literal
            self.used_features.add('match-single-literal')
            return self.newkw()
        if c < 0.3:
            return Choice([self.newkw() for _ in range(r.randint(2, 3))])
        if c < 0.5:
            return Re(r.choice(RE_MENU)[0])
        if c < 0.7:
            self.used_features.add('match-seq')
            return Seq([self.newkw(), Ref(r.choice(['INT', 'ID', 'STRING', 'FLOAT']))])
        if c < 0.8:
            return Rep(Ref('ID'), 1, Lit('.'))
        if c < 0.9 and later:
            return Choice([Ref(r.choice(later)), self.newkw()])
        if c < 0.95:
            self.used_features.add('match-suppress')
            return Seq([Lit('<', suppress=True), Ref('ID'), Lit('>', suppress=True)])
        if c < 0.965:
            # a suppressed element inside redundant parentheses
            self.used_features.add('match-suppress-paren')
            return Seq([Seq([Lit('<', suppress=True)], paren=True), Ref('ID'),
                        Seq([Seq([Lit('>'), Lit('>')], suppress=True)], paren=True)])
        # suppression applied to a repetition / optional / unordered group inside a match rule
        self.used_features.add('match-suppress-repetition')
        k = r.randrange(5)
        if k == 0:
            return Seq([Rep(self.newkw(), 1, suppress=True), Ref('ID')])
        if k == 1:
            return Seq([Ref('ID'), Rep(Lit('!'), 0, suppress=True)])
        if k == 2:
            return Seq([Ref('ID'), Unord([Lit('@a'), Lit('@b')], suppress=True)])
        if k == 3:
            return Seq([Rep(Lit('+'), 1, sep=Lit(','), suppress=True), Ref('INT')])
        return Seq([Opt(self.newkw(), suppress=True), Ref('ID'), Rep(Ref('INT'), 0, suppress=True)])

# ---------------- sentence derivation ----------------
class Deriver:
    def __init__(self, g, rnd, skipws=True, ws=None):
        self.g = g
        self.r = rnd
        self.uniq = 0
        self.base = Ctx(skipws, ws if ws is not None else '\t\n\r ')
        self.budget = 400

    def cost(self, e):
        """minimal number of tokens needed to derive e (fixpoint over rules; used to stop recursive grammars)"""
        if not hasattr(self, '_rcost'):
            INF = 10 ** 6
            self._rcost = {rl.name: INF for rl in self.g.rules}
            for _ in range(len(self.g.rules) + 2):
                for rl in self.g.rules:
                    self._rcost[rl.name] = min(INF, self._cost(rl.body))
        return self._cost(e)

    def _cost(self, e):
        if isinstance(e, (Lit, Re)):
            return 1
        if isinstance(e, Ref):
            return self._rcost.get(e.name, 1)
        if isinstance(e, (Seq, Unord)):
            return sum(self._cost(x) for x in e.items)
        if isinstance(e, Choice):
            return min(self._cost(x) for x in e.alts)
        if isinstance(e, Rep):
            return self._cost(e.e) if e.min else 0
        if isinstance(e, Assign):
            if e.op in ('*=', '?='):
                return 0
            return self._cost(Ref(e.rhs.rule) if isinstance(e.rhs, ObjRef) else e.rhs)
        return 0

    def gap(self, ctx):
        if getattr(self, 'hostile', False) and self.r.random() < 0.06:
            # whitespace chosen without regard to the active mode (tests that modifiers are really in force)
            return self.r.choice([' ', '\n', '\t', '  ', ' \n', ''])
        if not ctx.skipws:
            return ''
        w = ctx.eff_ws()
        if not w:
            return ''
        if getattr(self, 'comments', False) and self.r.random() < 0.08:
            cr = self.g.rule('Comment')
            if cr is not None:
                if comment_pattern(self.g).startswith('/\\*'):
                    return (' ' if ' ' in w else '') + '/* c%d */' % self.r.randint(0, 99) + (' ' if ' ' in w else '')
                if '\n' in w:
                    return (' ' if ' ' in w else '') + '// c%d\n' % self.r.randint(0, 99)
        c = self.r.random()
        if c < 0.7:
            return ' ' if ' ' in w else w[0]
        if c < 0.8:
            return ''
        return ''.join(self.r.choice(w) for _ in range(self.r.randint(1, 3)))

    def basetok(self, name):
        r = self.r
        self.uniq += 1
        u = self.uniq
        if name == 'ID':
            return r.choice(['n', 'id', 'x_']) + str(u)
        if name == 'INT':
            return r.choice(['', '-', '+']) + str(r.choice([0, u, u * 7]))
        if name in ('FLOAT',):
            return r.choice([f'{u}.5', f'{u}', f'{u}e2', f'.{u}', f'-{u}.'])
        if name == 'STRICTFLOAT':
            return r.choice([f'{u}.5', f'{u}e2', f'.{u}', f'-{u}.'])
        if name == 'NUMBER':
            return r.choice([f'{u}.25', f'{u}', f'{u}E1'])
        if name == 'BOOL':
            return r.choice(['true', 'false', 'True', 'False', '0', '1'])
        if name == 'STRING':
            return r.choice(['"s%d"' % u, "'t%d'" % u, '""', '"a\\"b%d"' % u, "'it\\'s%d'" % u])
        if name == 'BASETYPE':
            return self.basetok(r.choice(['ID', 'INT', 'STRING', 'FLOAT', 'BOOL']))
        raise KeyError(name)

    def run(self):
        s = self.d_rule(self.g.rules[0], self.base)
        return s

    def d_rule(self, rule, ctx):
        c = ctx
        if rule.skipws is not None or rule.ws is not None:
            c = Ctx(ctx.skipws if rule.skipws is None else rule.skipws, ctx.ws if rule.ws is None else rule.ws, ctx.eolterm)
        return self.d(rule.body, c)

    def d(self, e, ctx):
        r = self.r
        self.budget -= 1
        if isinstance(e, Lit):
            return self.gap(ctx) + e.s
        if isinstance(e, Re):
            for pat, fn in RE_MENU + SEP_RE_MENU:
                if pat == e.pat:
                    return self.gap(ctx) + fn(r)
            if e.pat.startswith('//'):
                return self.gap(ctx) + '// c'
            return self.gap(ctx) + '/* c */'
        if isinstance(e, Ref):
            if e.name in BASE_NAMES and self.g.rule(e.name) is None:
                return self.gap(ctx) + self.basetok(e.name)
            return self.d_rule(self.g.rule(e.name), ctx)
        if isinstance(e, Seq):
            return ''.join(self.d(x, ctx) for x in e.items)
        if isinstance(e, Choice):
            if self.budget <= 0:
                return self.d(min(e.alts, key=self.cost), ctx)
            return self.d(r.choice(e.alts), ctx)
        if isinstance(e, Opt):
            return self.d(e.e, ctx) if (r.random() < 0.6 and self.budget > 0) else ''
        if isinstance(e, Rep):
            n = r.choice([e.min, 1, 2, 3]) if self.budget > 0 else e.min
            n = max(n, e.min)
            c = Ctx(ctx.skipws, ctx.ws, ctx.eolterm or e.eolterm)
            out = ''
            for k in range(n):
                if k and e.sep is not None:
                    out += self.d(e.sep, c)
                out += self.d(e.e, c)
            return out
        if isinstance(e, Unord):
            items = list(e.items)
            r.shuffle(items)
            return ''.join(self.d(x, ctx) for x in items)
        if isinstance(e, (And, Not)):
            return ''
        if isinstance(e, Assign):
            rhs = Ref(e.rhs.rule) if isinstance(e.rhs, ObjRef) else e.rhs
            if e.op == '=':
                return self.d(rhs, ctx)
            if e.op == '?=':
                return self.d(rhs, ctx) if r.random() < 0.5 else ''
            n = r.choice([0, 1, 2, 3]) if self.budget > 0 else 0
            if e.op == '+=':
                n = max(n, 1)
            c = Ctx(ctx.skipws, ctx.ws, ctx.eolterm or e.eolterm)
            out = ''
            for k in range(n):
                if k and e.sep is not None:
                    out += self.d(e.sep, c)
                out += self.d(rhs, c)
            return out
        raise TypeError(e)

def mutate(s, rnd):
    import re as _re
    toks = _re.findall(r'\s+|\w+|"[^"]*"|\'[^\']*\'|.', s, _re.S)
    if not toks:
        return s
    for _ in range(rnd.randint(1, 2)):
        op = rnd.randint(0, 4)
        i = rnd.randrange(len(toks))
        if op == 0:
            del toks[i]
        elif op == 1:
            toks.insert(i, toks[i])
        elif op == 2:
            j = rnd.randrange(len(toks))
            toks[i], toks[j] = toks[j], toks[i]
        elif op == 3:
            toks[i] = rnd.choice([' ', '\n', '', 'zz', '7', '"q"', ',', '\t'])
        else:
            toks.insert(i, rnd.choice([' ', '\n', '  ', '\t']))
        if not toks:
            break
    return ''.join(toks)

"""Own RREL expression AST: enumeration, random generation, printing, and the canonical
form of a textX RREL tree (used to compare trees structurally)."""
import itertools

# AST (tuples):
#  ('nav', name, consume(bool), fixed(str|None), quote)
#  ('parent', type)
#  ('br', seq)
#  ('star', elem)            elem: nav | parent | br
#  path: ('path', prefix, [elems])   prefix in '', '^', '.', '..', '...'
#  seq:  ('seq', [paths])
#  expr: ('expr', flags, seq)


def pr(n):
    k = n[0]
    if k == 'nav':
        _, name, consume, fixed, quote = n
        if fixed is not None:
            return quote + fixed + quote + '~' + name
        return name if consume else '~' + name
    if k == 'parent':
        return 'parent(%s)' % n[1]
    if k == 'br':
        return '(' + pr(n[1]) + ')'
    if k == 'star':
        return pr(n[1]) + '*'
    if k == 'path':
        _, prefix, elems = n
        return prefix + '.'.join(pr(e) for e in elems)
    if k == 'seq':
        return ','.join(pr(p) for p in n[1])
    if k == 'expr':
        return (('+' + n[1] + ':') if n[1] else '') + pr(n[2])
    raise TypeError(n)


def canon_expected(n):
    """Canonical structure textX is documented to build for my AST (same shape as canon())."""
    k = n[0]
    if k == 'nav':
        return ('nav', n[1], bool(n[2]), n[3])
    if k == 'parent':
        return ('parent', n[1])
    if k == 'br':
        return ('br', canon_expected(n[1]))
    if k == 'star':
        e = n[1]
        if e[0] == 'br':
            return ('star', canon_expected(e))
        return ('star', ('br', ('seq', (('path', (canon_expected(e),)),))))
    if k == 'path':
        _, prefix, elems = n
        out = []
        if prefix == '^':
            out.append(('star', ('br', ('seq', (('path', (('dots', 2),)),)))))
        elif prefix:
            out.append(('dots', len(prefix)))
        out.extend(canon_expected(e) for e in elems)
        return ('path', tuple(out))
    if k == 'seq':
        return ('seq', tuple(canon_expected(p) for p in n[1]))
    if k == 'expr':
        return ('expr', ''.join(sorted(set(n[1]))), canon_expected(n[2]))
    raise TypeError(n)


def canon(t):
    """Canonical structure of a textX RREL tree."""
    import textx.scoping.rrel as R
    if isinstance(t, R.RRELExpression):
        return ('expr', ''.join(sorted(set(t.flags))), canon(t.seq),
                ) + ((('inconsistent-flags', t.importURI, t.use_proxy),)
                     if (t.importURI != ('m' in t.flags) or t.use_proxy != ('p' in t.flags)) else ())
    if isinstance(t, R.RRELSequence):
        return ('seq', tuple(canon(p) for p in t.paths))
    if isinstance(t, R.RRELPath):
        return ('path', tuple(canon(e) for e in t.path_elements))
    if isinstance(t, R.RRELZeroOrMore):
        return ('star', canon(t.path_element))
    if isinstance(t, R.RRELBrackets):
        return ('br', canon(t.seq))
    if isinstance(t, R.RRELDots):
        return ('dots', t.num)
    if isinstance(t, R.RRELParent):
        return ('parent', t.type)
    if isinstance(t, R.RRELNavigation):
        return ('nav', t.name, bool(t.consume_name), t.fixed_name)
    return ('?', repr(t))


NAMES = ['packages', 'classes']
TYPES = ['Package']
FIXED = [('a', "'")]
FLAGS = ['', 'm', 'p', 'mp', 'pm']


def leaf_elems(names=NAMES, types=TYPES, fixed=FIXED):
    out = []
    for nm in names:
        out.append(('nav', nm, True, None, "'"))
        out.append(('nav', nm, False, None, "'"))
    for fx, q in fixed:
        out.append(('nav', names[0], False, fx, q))
    for t in types:
        out.append(('parent', t))
    return out


def enum_elems(size, names, types, fixed):
    """all path elements with exactly `size` nodes (leaf=1, star=+1, brackets=+1)"""
    if size == 1:
        yield from leaf_elems(names, types, fixed)
        return
    # star over a non-star element
    for e in enum_elems(size - 1, names, types, fixed):
        if e[0] != 'star':
            yield ('star', e)
    # brackets around a sequence
    for s in enum_seqs(size - 1, names, types, fixed):
        yield ('br', s)


def enum_paths(size, names, types, fixed):
    """paths with total size: prefix counts 1 if present."""
    for prefix in ('', '^', '.', '..'):
        rest = size - (1 if prefix else 0)
        if rest == 0 and prefix:
            yield ('path', prefix, [])
            continue
        if rest <= 0:
            continue
        for k in range(1, rest + 1):
            for split in compositions(rest, k):
                for combo in itertools.product(*[list(enum_elems(s, names, types, fixed)) for s in split]):
                    yield ('path', prefix, list(combo))


def enum_seqs(size, names, types, fixed):
    for k in range(1, size + 1):
        for split in compositions(size, k):
            for combo in itertools.product(*[list(enum_paths(s, names, types, fixed)) for s in split]):
                yield ('seq', list(combo))


def compositions(n, k):
    if k == 1:
        yield (n,)
        return
    for first in range(1, n - k + 2):
        for rest in compositions(n - first, k - 1):
            yield (first,) + rest


def enum_exprs(maxsize, names=NAMES, types=TYPES, fixed=FIXED, flags=FLAGS):
    for size in range(1, maxsize + 1):
        for s in enum_seqs(size, names, types, fixed):
            for f in flags:
                yield ('expr', f, s)


# ------------------------------------------------------------------ random
def rand_elem(r, depth, names, types, fixed_names, maxdepth=2):
    c = r.random()
    if c < 0.55 or depth >= maxdepth:
        nm = r.choice(names)
        k = r.random()
        if k < 0.55:
            e = ('nav', nm, True, None, "'")
        elif k < 0.85:
            e = ('nav', nm, False, None, "'")
        else:
            fx, q = r.choice(fixed_names)
            e = ('nav', nm, False, fx, q)
    elif c < 0.65:
        e = ('parent', r.choice(types))
    else:
        e = ('br', rand_seq(r, depth + 1, names, types, fixed_names, maxdepth))
    if r.random() < 0.3:
        e = ('star', e)
    return e


def rand_path(r, depth, names, types, fixed_names, maxdepth=2):
    prefix = r.choice(['', '', '', '^', '.', '..', '...'])
    n = r.randint(0 if prefix else 1, 3)
    return ('path', prefix, [rand_elem(r, depth, names, types, fixed_names, maxdepth) for _ in range(n)])


def rand_seq(r, depth, names, types, fixed_names, maxdepth=2):
    return ('seq', [rand_path(r, depth, names, types, fixed_names, maxdepth)
                    for _ in range(r.choice([1, 1, 2, 3]))])


def rand_expr(r, names, types, fixed_names, flags=FLAGS, maxdepth=2):
    return ('expr', r.choice(flags), rand_seq(r, 0, names, types, fixed_names, maxdepth))

"""Shared by C16: build the metamodel of a named configuration and evaluate one input on it.
Run as a script it evaluates ONE (configuration, input) pair in a fresh interpreter and prints the outcome as JSON."""
import json
import os
import re
import sys

CONCRETE = ['Circle', 'Square', 'Wire']
SHAPES = {'V0': ('Circle', 'Square'), 'V1': ('Circle', 'Wire'), 'V2': ('Wire', 'Square', 'Circle')}


def grammar(v):
    sub = SHAPES[v]
    return '''
Model: imports*=Import (defs+=Def | groups+=Group | refs+=Ref | nums+=NumItem | pairs+=Pair | hexes+=HexItem)*;
Import: 'import' importURI=STRING;
Def: Shape | %s Other;
Shape: %s;
Circle: 'circle' name=ID;
Square: 'square' name=ID;
Wire: 'wire' name=ID;
Other: 'other' name=ID;
Group: 'group' name=ID '{' (defs+=Def | groups+=Group)* '}';
Ref: 'ref' name=ID ('shape' s=[Shape] | 'circle' c=[Circle] | 'list' l+=[Shape][',']);
NumItem: 'num' n=Num;
Pair: 'pair' a=INT ('and' a=INT)?;
Num: /-?\\d+/;
HexItem: 'hex' h=/#[0-9a-f]+/;
Comment: /\\/\\/.*$/;
''' % (''.join(c + ' | ' for c in CONCRETE if c not in sub), ' | '.join(sub))


CONFIGS = {
    'c0': dict(v='V0'),
    'c1': dict(v='V1', memoization=True),
    'c2': dict(v='V0', classes=True, processors=True),
    'c3': dict(v='V2', builtins=True, autokwd=True),
    'c4': dict(v='V0', global_repository=True, importuri=True),
    'c5': dict(v='V1', textx_tools_support=True, ignore_case=True, importuri=True),
    'c6': dict(v='V2', processors=True, memoization=True),
    'c7': dict(v='V1', classes=True, auto_init_attributes=False),
    # the grammar text of c0 / c1 compiled under other options: anything cached per grammar text, literal or regex shows here
    'c8': dict(v='V0', ignore_case=True),
    'c9': dict(v='V0', autokwd=True),
    'c10': dict(v='V1', ignore_case=True, autokwd=True, skipws=False),
    'c11': dict(v='V0', use_regexp_group=True, memoization=True),
    'c12': dict(v='V1', global_repository=True, importuri=True, processors=True),
}


def build(cname):
    from textx import metamodel_from_str, TextXError
    import textx.scoping.providers as sp
    c = CONFIGS[cname]
    kw = {}
    for k in ('memoization', 'autokwd', 'global_repository', 'textx_tools_support', 'ignore_case', 'auto_init_attributes', 'skipws',
              'use_regexp_group'):
        if k in c:
            kw[k] = c[k]
    if c.get('classes'):
        class Circle:
            def __init__(self, parent=None, name=None):
                self.parent, self.name = parent, name
                self.inited = True

            def __setattr__(self, k, v):
                # the class has its own attribute hook: what it does must not depend on earlier loads
                object.__setattr__(self, k, v)
                object.__setattr__(self, 'sets', getattr(self, 'sets', 0) + 1)

        class Group:
            def __init__(self, parent=None, name=None, defs=None, groups=None):
                self.parent, self.name, self.defs, self.groups = parent, name, defs, groups
        kw['classes'] = [Circle, Group]
    if c.get('builtins'):
        helper = metamodel_from_str(grammar(c['v']))
        bm = helper.model_from_str('circle bc square bs wire bw other bo')
        kw['builtins'] = {d.name: d for d in bm.defs}
    mm = metamodel_from_str(grammar(c['v']), **kw)
    if c.get('importuri'):
        mm.register_scope_providers({'*.*': sp.PlainNameImportURI()})
    if c.get('processors'):
        def num(x):
            # runs while the model is being constructed (match rule)
            if int(x) == 13:
                raise TextXError('unlucky number')
            return int(x) * 2

        def wire(w):
            # runs after the model was linked (common rule)
            if w.name == 'badwire':
                raise TextXError('bad wire')
            w.processed = True
        mm.register_obj_processors({'Num': num, 'Wire': wire})

        def validate(model, metamodel):
            # model processor (runs for every model newly loaded by a load, imported ones included)
            for d in model.defs:
                if d.name == 'badmodel':
                    raise TextXError('model rejected by the validator')
            model.validated = True
        mm.register_model_processor(validate)
    return mm


def dump(v, depth=0):
    cls = v.__class__
    if hasattr(cls, '_tx_attrs') and not isinstance(v, (str, int, float, bool)):
        items = []
        for k, a in cls._tx_attrs.items():
            x = getattr(v, k, '<missing>')
            if a.ref and not a.cont:
                xs = x if isinstance(x, list) else [x]
                items.append((k, [None if y is None else [type(y).__name__, getattr(y, 'name', None)] for y in xs]))
            else:
                items.append((k, dump(x, depth + 1)))
        extra = sorted((k if k != 'sets' else 'sets=%d' % v.__dict__['sets']) for k in getattr(v, '__dict__', {}) if k in ('processed', 'inited', 'validated', 'sets'))
        return [cls.__name__, sorted(items, key=lambda t: t[0]), extra]
    if isinstance(v, list):
        return ['list'] + [dump(x, depth + 1) for x in v]
    return [type(v).__name__, v]


def evaluate(mm, inp):
    """inp: {'kind': 'str', 'text': ...} or {'kind': 'file', 'path': ...}"""
    from textx import TextXError
    try:
        if inp['kind'] == 'str':
            m = mm.model_from_str(inp['text'])
        else:
            m = mm.model_from_file(inp['path'])
        out = ['ok', dump(m)]
        if hasattr(m, '_pos_crossref_list'):
            out.append(sorted([r.name, r.ref_pos_start] for r in m._pos_crossref_list))
        return out
    except TextXError as e:
        fn = getattr(e, 'filename', None)
        return ['error', type(e).__name__, re.sub(r'0x[0-9a-fA-F]+', '0xX', str(e)), getattr(e, 'line', None), getattr(e, 'col', None),
                os.path.basename(fn) if fn else None]
    except RecursionError:
        return ['exception', 'RecursionError']
    except Exception as e:
        return ['exception', type(e).__name__, re.sub(r'0x[0-9a-fA-F]+', '0xX', str(e))[:200]]


if __name__ == '__main__':
    repo = os.environ.get('TV_REPO')
    if repo:
        sys.path.insert(0, repo)
    jobs = json.loads(sys.argv[1])
    # one fresh interpreter per (configuration, input) pair: exactly one job
    assert len(jobs) == 1
    cname, inp = jobs[0]
    print(json.dumps(evaluate(build(cname), inp)))

"""C04 - base types convert text to values faithfully (round-trip oracle)."""
import itertools
import math

ID = 'C04'
LEVEL = 'exploration'
QUICK_S = 40
THOROUGH_S = 420
EXHAUSTIVE_CLAIM = True
TECHNIQUE = ('runtime monitoring: round-trip oracle on model_from_str - the harness renders a value to literal text with its own '
             'encoder and compares the value textX produces with the original (type and value), exhaustively over short strings '
             'and on random strings, integers, floats and booleans')
RULE = ('exhaustive: every string over {a,space,",\',\\,newline} up to length 4 (quick) / 6 (thorough) '
        'not ending in a backslash, in both quote styles, alone / followed by 2 more strings on the same '
        'line / through BASETYPE and an abstract Value rule; plus random unicode strings, ints (up to 80 '
        'digits, +/-), floats in repr/%e/%E/"1."/".5" forms through FLOAT, STRICTFLOAT, NUMBER, BASETYPE, '
        'all BOOL spellings; every case under one of 6 metamodel configurations (default, use_regexp_group, ignore_case, autokwd, memoization, use_regexp_group without auto-init) in rotation. distinct = distinct (type-path, literal text); non-trivial = literal contains '
        'a quote, backslash, newline, sign, exponent or >15 digits')
REQUIRED = {'string_roundtrips': 500, 'int_roundtrips': 50, 'float_roundtrips': 50,
            'bool_roundtrips': 6, 'multi_string_lines': 100,
            'config_0': 100, 'config_1': 100, 'config_2': 100, 'config_3': 100, 'config_4': 100, 'config_5': 100}
ASSUMPTIONS = ['Python int()/float()/repr round-trip is the reference for numeric text',
               'string encoding used by the oracle: only the delimiting quote is escaped (as the property states)']

GRAMMAR = r'''
Model: items+=Item;
Item: 's' s=STRING | 'ss' ss+=STRING | 'i' i=INT | 'n' n=NUMBER | 'f' f=FLOAT
    | 'sf' sf=STRICTFLOAT | 'b' b=BOOL | 'bt' bt=BASETYPE | 'v' v=Value | 'vs' vs+=Value[','];
Value: STRING | NUMBER | BOOL | Obj;
Obj: '{' x=INT '}';
'''

# metamodel configurations under which every conversion must come out the same
CONFIGS = [{}, {'use_regexp_group': True}, {'ignore_case': True}, {'autokwd': True}, {'memoization': True},
           {'use_regexp_group': True, 'auto_init_attributes': False}]
CONFIG = [0]
_mm = {}


def mm():
    k = CONFIG[0]
    if k not in _mm:
        from textx import metamodel_from_str
        _mm[k] = metamodel_from_str(GRAMMAR, **CONFIGS[k])
    return _mm[k]


def enc(s, q):
    return q + s.replace(q, '\\' + q) + q


def same(a, b):
    if type(a) is not type(b):
        return False
    if isinstance(a, float):
        return a == b or (math.isnan(a) and math.isnan(b))
    return a == b


def nontrivial(text):
    return any(c in text for c in '"\'\\\n+-eE') or len(text) > 15


def check(ctx, kind, text, expected, replay):
    """Parse `text` (one model) and compare the list of values with `expected`."""
    from textx import TextXError
    try:
        m = mm().model_from_str(text)
    except TextXError as e:
        ctx.violation(None, 'base-type text rejected (%s): %r: %s' % (kind, text[:80], str(e)[:100]),
                      {'text': text, 'expected': repr(expected), 'error': str(e)}, replay)
        return False
    got = []
    for it in m.items:
        v = getattr(it, kind[0])
        if isinstance(v, list):
            got.extend(v)
        else:
            got.append(v)
    ok = len(got) == len(expected) and all(same(g, e) for g, e in zip(got, expected))
    if not ok:
        ctx.violation(None, '%s: %r parsed to %r, expected %r' % (kind, text[:80], got[:6], expected[:6]),
                      {'text': text, 'expected': repr(expected), 'got': repr(got)}, replay)
    return ok


def one_string(ctx, s, variant, replay):
    """variant: (quote, path)"""
    q, path = variant
    lit = enc(s, q)
    if path == 's':
        text, exp, kind = 's ' + lit, [s], ('s', 'STRING')
    elif path == 'ss3':
        q2 = "'" if q == '"' else '"'
        text = 'ss ' + lit + ' ' + enc(s[::-1].rstrip('\\'), q2) + ' ' + enc('z', q)
        exp, kind = [s, s[::-1].rstrip('\\'), 'z'], ('ss', 'STRING x3 same line')
        ctx.count('multi_string_lines')
    elif path == 'bt':
        text, exp, kind = 'bt ' + lit, [s], ('bt', 'BASETYPE->STRING')
    elif path == 'v':
        text, exp, kind = 'v ' + lit, [s], ('v', 'Value->STRING')
    else:
        text = 'vs ' + lit + ' , ' + lit + ',{5}'
        exp, kind = [s, s, None], ('vs', 'Value list')
    if path == 'vs':
        # third element is an object; compare first two only
        from textx import TextXError
        try:
            m = mm().model_from_str(text)
            got = m.items[0].vs
            ok = len(got) == 3 and same(got[0], s) and same(got[1], s) and type(got[2]).__name__ == 'Obj'
        except TextXError as e:
            ok, got = False, str(e)
        if not ok:
            ctx.violation(None, 'Value list: %r parsed to %r' % (text[:80], got),
                          {'text': text, 'string': s}, replay)
    else:
        check(ctx, kind, text, exp, replay)
    ctx.count('string_roundtrips')
    ctx.case(('str', path, lit), nontrivial(lit),
             {'kind': kind[1] if path != 'vs' else 'Value list', 'text': text, 'expected': s})


ALPHA = ['a', ' ', '"', "'", '\\', '\n']
VARIANTS = [(q, p) for q in ('"', "'") for p in ('s', 'ss3', 'bt', 'v', 'vs')]


def all_strings(maxlen):
    for n in range(maxlen + 1):
        for t in itertools.product(ALPHA, repeat=n):
            s = ''.join(t)
            if s.endswith('\\'):
                continue
            yield s


def float_forms(x):
    out = {repr(x), '%e' % x, '%E' % x, '%.17e' % x, '%.3f' % x if abs(x) < 1e15 else repr(x)}
    if x == int(x) and abs(x) < 1e15:
        out.add('%d.' % x)
        out.add('%de0' % x)
    if 0 < abs(x) < 1 and 'e' not in repr(x):
        out.add(repr(x).replace('0.', '.', 1))
    res = []
    for t in out:
        if ('.' in t or 'e' in t or 'E' in t) and 'inf' not in t and 'nan' not in t:
            res.append(t)
            if not t.startswith('-'):
                res.append('+' + t)
    return sorted(res)


def run_random(ctx, i, replay=None):
    r = ctx.rng('rand', i)
    rp = replay or {'phase': 'rand', 'i': i}
    k = i % 4
    if k == 0:
        # unicode / long strings
        pool = 'ab \t"\'\\\néЖ中\U0001f600/*#-0{}' + 'e\u0301\u0323\u212b\u2126\u1100\u1161\uf900\ufb01'   # + text that is not in Unicode normal form C
        n = r.choice([1, 2, 5, 9, 30, 200])
        s = ''.join(r.choice(pool) for _ in range(n))
        s = s.rstrip('\\')
        one_string(ctx, s, r.choice(VARIANTS), rp)
    elif k == 1:
        nd = r.choice([1, 2, 5, 18, 19, 20, 40, 80])
        v = r.randrange(10 ** nd) * r.choice([1, -1])
        txt = str(v)
        if v >= 0 and r.random() < 0.3:
            txt = '+' + txt
        if r.random() < 0.2:
            txt = txt.replace(str(abs(v)), '000' + str(abs(v)))
        for path in ('i', 'n', 'bt', 'v'):
            check(ctx, (path, 'INT via ' + path), path + ' ' + txt, [int(txt)], rp)
            ctx.count('int_roundtrips')
        ctx.case(('int', txt), nontrivial(txt), {'kind': 'INT/NUMBER/BASETYPE/Value', 'text': txt})
    elif k == 2:
        c = r.random()
        if c < 0.3:
            x = r.uniform(-1e3, 1e3)
        elif c < 0.5:
            x = r.choice([0.0, 1.0, 0.5, 1e300, 1e-300, 5e-324, 1.7976931348623157e308, 123456789.0, 0.1])
        elif c < 0.8:
            x = r.uniform(-1, 1) * 10 ** r.randint(-300, 300)
        else:
            x = float(r.randrange(10 ** r.randint(1, 14)))
        for t in float_forms(x):
            exp = float(t)
            if math.isinf(exp):
                continue
            paths = ['f', 'sf', 'n', 'v', 'bt']
            for path in paths:
                check(ctx, (path, 'float via ' + path), path + ' ' + t, [exp], rp)
                ctx.count('float_roundtrips')
            ctx.case(('float', t), nontrivial(t), {'kind': 'FLOAT/STRICTFLOAT/NUMBER/Value/BASETYPE', 'text': t})
        # ints through FLOAT give floats
        n = r.randrange(10 ** r.randint(1, 15))
        check(ctx, ('f', 'int text via FLOAT'), 'f %d' % n, [float(n)], rp)
    else:
        for sp, val in (('true', True), ('True', True), ('false', False), ('False', False), ('0', False), ('1', True)):
            check(ctx, ('b', 'BOOL'), 'b ' + sp, [val], rp)
            ctx.count('bool_roundtrips')
            ctx.case(('bool', sp), True, {'kind': 'BOOL', 'text': sp})
        # several values in one model, mixed
        vals = []
        parts = []
        for _ in range(r.randint(2, 6)):
            c = r.randrange(4)
            if c == 0:
                s = ''.join(r.choice(ALPHA) for _ in range(r.randint(0, 5))).rstrip('\\')
                q = r.choice('"\'')
                parts.append('s ' + enc(s, q))
                vals.append(s)
            elif c == 1:
                v = r.randrange(-50, 50)
                parts.append('i %d' % v)
                vals.append(v)
            elif c == 2:
                x = r.uniform(-5, 5)
                parts.append('sf ' + repr(x))
                vals.append(x)
            else:
                b = r.random() < 0.5
                parts.append('b ' + r.choice(['true', 'True', '1'] if b else ['false', 'False', '0']))
                vals.append(b)
        sep = r.choice([' ', '\n', '  '])
        text = sep.join(parts)
        from textx import TextXError
        try:
            m = mm().model_from_str(text)
            got = []
            for it, p in zip(m.items, parts):
                got.append(getattr(it, p.split(' ')[0]))
            if not (len(got) == len(vals) and all(same(a, b) for a, b in zip(got, vals))):
                ctx.violation(None, 'mixed line %r parsed to %r expected %r' % (text[:80], got, vals),
                              {'text': text}, rp)
        except TextXError as e:
            ctx.violation(None, 'mixed line rejected %r: %s' % (text[:80], e), {'text': text}, rp)
        ctx.case(('mixed', text), True)


def run(ctx):
    maxlen = 4 if ctx.tier == 'quick' else 6
    strings = list(all_strings(maxlen))
    ctx.note('exhaustive_string_space', {'alphabet': ALPHA, 'max_len': maxlen, 'strings': len(strings),
                                        'variants_per_string': len(VARIANTS)})
    # leave part of the budget for the random phase
    total = ctx.deadline - ctx.t0
    ctx.deadline = ctx.t0 + total * 0.75
    for idx in ctx.indices(len(strings), 'exhaustive_strings', exhaustive=True):
        s = strings[idx]
        for vi, var in enumerate(VARIANTS):
            CONFIG[0] = (idx + vi) % len(CONFIGS)
            ctx.count('config_%d' % CONFIG[0])
            one_string(ctx, s, var, {'phase': 'exh', 's': s, 'variant': vi, 'config': CONFIG[0]})
    ctx.deadline = ctx.t0 + total
    n = 4000 if ctx.tier == 'quick' else 200000
    for i in ctx.indices(n, 'random'):
        CONFIG[0] = (i // 4) % len(CONFIGS)
        ctx.count('config_%d' % CONFIG[0])
        run_random(ctx, i)


def replay(ctx, rep):
    CONFIG[0] = rep.get('config', (rep.get('i', 0) // 4) % len(CONFIGS))
    if rep.get('phase') == 'exh':
        one_string(ctx, rep['s'], VARIANTS[rep['variant']], rep)
    else:
        run_random(ctx, rep['i'], rep)

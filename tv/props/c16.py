"""C16 - loading is independent of the metamodel's history."""
import json
import os
import shutil
import subprocess
import sys
import tempfile

from tv import c16_eval as E

ID = 'C16'
LEVEL = 'exploration'
QUICK_S = 60
THOROUGH_S = 1200
TECHNIQUE = ('runtime monitoring: history + executable model; the model is the table (configuration, input) -> outcome obtained '
             'by evaluating every pair once in a FRESH interpreter process; random histories of loads interleaved over a pool '
             'of live metamodels are checked step by step against the table')
RULE = ('per pool: 8 metamodel configurations over three grammar variants with the same rule names but different hierarchies '
        '(memoization, user classes, object/match processors, builtins, autokwd, ignore_case, global repository, ImportURI, '
        'tool support) x ~22 inputs (valid, syntax errors, unknown / wrong-type / ambiguous references, duplicate '
        'assignments, a processor that fails during construction, file loads with imports incl. a failing imported file); '
        'every applicable pair is evaluated in its own fresh process (the table), then histories of 150 (quick) / 400 random '
        'steps (load on a random live metamodel; occasionally create a new metamodel of a random configuration and switch '
        'to it) are compared step by step. distinct = (configuration, input, previous step); non-trivial = the step '
        'follows a failed load or a load on another configuration')
REQUIRED = {'table_pairs_fresh_process': 40, 'history_steps': 1000, 'steps_after_failed_load': 100,
            'steps_after_other_configuration': 200, 'metamodels_recreated': 5, 'file_load_steps': 50}


def inputs(tmp):
    texts = [
        'circle a square b ref r1 shape a',
        'circle a wire w ref r1 shape w',
        'square s ref r1 shape s ref r2 circle s',
        'circle a circle a ref r shape a',
        'circle a square a ref r shape a',
        'ref r shape nowhere',
        'circle a ref r list a , a , a',
        'group g { circle a group h { wire w } } ref r shape w ref q circle a',
        'num 5 num 7',
        'circle a num 13 circle b',
        'pair 1 and 2',
        'pair 0 and 2 pair 3',
        'circle',
        'circle a ref',
        '',
        '// only a comment\n',
        'CIRCLE a Ref r SHAPE a',
        'circlea',
        'ref r shape bc ref q shape bs',
        'other o ref r shape o',
        'wire w wire w2 ref r list w , w2',
        'hex #ff hex #0a',
        'hex #FF circle a',
        'Hex #aB SQUARE q',
        'circle  a\tsquare b',
        'wire badwire circle a',
        'circle badmodel square q',
    ]
    out = [{'kind': 'str', 'text': t} for t in texts]
    files = {
        'lib.m': 'circle lc square ls wire lw\n',
        'main_ok.m': 'import "lib.m"\ncircle a ref r shape lc ref q shape a\n',
        'main_bad.m': 'import "lib.m"\nref r shape missing\n',
        'lib_bad.m': 'circle x ref r shape nothere\n',
        'main_imp_bad.m': 'import "lib_bad.m"\ncircle a\n',
        'cyc_a.m': 'import "cyc_b.m"\ncircle ca ref r shape cb\n',
        'cyc_b.m': 'import "cyc_a.m"\nsquare cb ref r shape ca\n',
        'procfail.m': 'circle pc wire badwire\n',
        'main_imp_procfail.m': 'import "procfail.m"\ncircle a ref r shape pc\n',
        'numfail.m': 'circle nc num 13\n',
        'lib_syntax.m': 'circle x %%% junk\n',
        'main_imp_syntax.m': 'import "lib_syntax.m"\ncircle a\n',
        'main_imp_missing.m': 'import "nofile.m"\ncircle a\n',
        'user_of_bad.m': 'import "main_imp_syntax.m"\ncircle u\n',
        'mpfail.m': 'circle badmodel circle mq\n',
        'main_imp_mpfail.m': 'import "mpfail.m"\ncircle a ref r shape mq\n',
        'user_of_mpfail.m': 'import "main_imp_mpfail.m"\nimport "lib.m"\ncircle u ref r shape lc\n',
    }
    for nm, t in files.items():
        with open(os.path.join(tmp, nm), 'w') as f:
            f.write(t)
    for nm in ('main_ok.m', 'main_bad.m', 'main_imp_bad.m', 'cyc_a.m', 'lib.m', 'procfail.m', 'main_imp_procfail.m', 'numfail.m', 'main_imp_syntax.m',
               'main_imp_missing.m', 'user_of_bad.m', 'mpfail.m', 'main_imp_mpfail.m', 'user_of_mpfail.m'):
        out.append({'kind': 'file', 'path': os.path.join(tmp, nm)})
    return out


def applicable(cname, inp):
    if inp['kind'] == 'file':
        return bool(E.CONFIGS[cname].get('importuri'))
    return True


def fresh(cname, inp):
    env = dict(os.environ, PYTHONHASHSEED='0')
    root = os.path.dirname(os.path.dirname(os.path.dirname(os.path.abspath(__file__))))
    env['PYTHONPATH'] = root
    r = subprocess.run(['/venv/bin/python', '-m', 'tv.c16_eval', json.dumps([[cname, inp]])], capture_output=True,
                       text=True, env=env, cwd=root, timeout=120)
    if r.returncode != 0:
        raise RuntimeError('fresh-process evaluation failed: ' + r.stderr[-400:])
    return json.loads(r.stdout.strip().splitlines()[-1])


_TABLE = {}


def shared_table(ctx, rep):
    """The table is the same for every shard of a run: shard s evaluates the pairs with index = s (mod shards)
    in fresh processes and publishes them under out/c16/<run>/; every shard then reads all of them."""
    import time
    root = os.path.dirname(os.path.dirname(os.path.dirname(os.path.abspath(__file__))))
    run_dir = os.path.join(root, 'out', 'c16', 'run-%d-%d' % (os.getppid(), ctx.seed)) if not ctx.replaying else \
        tempfile.mkdtemp(prefix='tvc16r_')
    files_dir = os.path.join(run_dir, 'files')
    os.makedirs(files_dir, exist_ok=True)
    # remove directories of old runs
    base = os.path.dirname(run_dir)
    if not ctx.replaying:
        for d in os.listdir(base):
            p = os.path.join(base, d)
            try:
                if p != run_dir and time.time() - os.path.getmtime(p) > 3600:
                    shutil.rmtree(p, ignore_errors=True)
            except OSError:
                pass
    inps = inputs(files_dir)
    pairs = [(c, k) for c in sorted(E.CONFIGS) for k, inp in enumerate(inps) if applicable(c, inp)]
    for idx, (c, k) in enumerate(pairs):
        if idx % ctx.nshards != ctx.shard and not ctx.replaying:
            continue
        res = fresh(c, inps[k])
        ctx.count('table_pairs_fresh_process')
        tmpf = os.path.join(run_dir, '%s-%d.json.tmp%d' % (c, k, ctx.shard))
        with open(tmpf, 'w') as f:
            json.dump(res, f)
        os.replace(tmpf, os.path.join(run_dir, '%s-%d.json' % (c, k)))
    table = {}
    deadline = time.time() + 240
    for c, k in pairs:
        p = os.path.join(run_dir, '%s-%d.json' % (c, k))
        while not os.path.exists(p):
            if time.time() > deadline:
                raise RuntimeError('harness: table entry %s missing (another shard did not deliver)' % p)
            time.sleep(0.2)
        with open(p) as f:
            table[(c, k)] = json.load(f)
    return inps, table


def one(ctx, i, rep=None):
    rep = rep or {'i': i}
    r = ctx.rng('pool', i)
    tmp = None
    try:
        if 'x' not in _TABLE:
            _TABLE['x'] = shared_table(ctx, rep)
        inps, table = _TABLE['x']
        keys = sorted(table)
        nhist = 2 if ctx.tier == 'quick' else 6
        nsteps = 150 if ctx.tier == 'quick' else 400
        for h in range(nhist):
            live = {}
            prev = None
            trace = []
            for step in range(nsteps):
                c, k = r.choice(keys)
                if c not in live or r.random() < 0.03:
                    if c in live:
                        ctx.count('metamodels_recreated')
                    live[c] = E.build(c)
                got = json.loads(json.dumps(E.evaluate(live[c], inps[k])))
                exp = table[(c, k)]
                ctx.count('history_steps')
                nontriv = False
                if prev is not None:
                    if prev[2] != 'ok':
                        ctx.count('steps_after_failed_load')
                        nontriv = True
                    if prev[0] != c:
                        ctx.count('steps_after_other_configuration')
                        nontriv = True
                if inps[k]['kind'] == 'file':
                    ctx.count('file_load_steps')
                trace.append((c, k, got[0]))
                ctx.case((c, k, prev and prev[:2]), nontriv,
                         {'configuration': c, 'input': inps[k], 'outcome': got[0]} if ctx.evaluations < 2 else None)
                if got != exp:
                    ctx.violation(None, 'step %d of a history: configuration %s, input %r gives %s, on a fresh process state it gives %s' % (
                        step, c, (inps[k].get('text') or os.path.basename(inps[k]['path']))[:50], short(got), short(exp)),
                        {'configuration': E.CONFIGS[c], 'input': inps[k], 'history_tail': trace[-12:], 'got': got, 'fresh': exp}, rep)
                    # continue with a fresh pool of metamodels
                    live = {}
                prev = (c, k, got[0])
    finally:
        pass


def short(o):
    s = json.dumps(o)
    return s[:160]


def run(ctx):
    for i in ctx.indices(64 if ctx.tier == 'quick' else 2000, 'pools'):
        one(ctx, i)


def replay(ctx, rep):
    one(ctx, rep['i'], rep)

"""C28 - model loading errors point at the offending text."""
import os
import shutil
import tempfile

from tv import mfiles as M

ID = 'C28'
LEVEL = 'exploration'
QUICK_S = 45
THOROUGH_S = 300
TECHNIQUE = ('runtime monitoring: one error of a known kind injected at an offset known from the harness layout; filename / '
             'line / col of the raised error compared with the ground truth computed by counting newlines in that file')
RULE = ('random import graphs (1-5 files, generator of C17) and single-file string models; one injected error per load: '
        'syntax error (illegal token, or a text that stops in the middle of a statement with and without a final line end), unknown name, non-unique name, unresolvable postponed reference (the offending name as a single reference or as the k-th element, k = 0..3, of a '
        'comma separated reference list laid out over one or several lines); located in the main '
        'file, a direct import or a transitive import; preceded by random blank lines, indentation, comments and CR/LF-free '
        'or LF layouts; providers PlainNameImportURI / FQNImportURI (+ a postponing wrapper). Oracle: error.filename is the '
        'absolute path of the file containing the offending text (None for strings), (line, col) is the 1-based position of '
        'that text in that file. distinct = (graph shape, kind, location class, layout); non-trivial = error in an imported '
        'file or preceded by a multi-line layout')
REQUIRED = {'two_string_models_cases': 50, 'syntax_error_at_end_of_text': 50, 'syntax_error_at_end_of_unterminated_last_line': 20, 'errors_checked': 500, 'kind_syntax': 50, 'kind_unknown': 50, 'kind_not_unique': 50, 'kind_postponed': 50,
            'in_main_file': 100, 'in_imported_file': 100, 'string_loads': 50,
            'in_reference_list': 100, 'in_reference_list_not_first': 50, 'files_with_cr_line_ends': 50,
            'files_with_crlf_line_ends': 50, 'not_unique_definitions_in_imported_file': 30}
KINDS = ['syntax', 'unknown', 'not_unique', 'postponed']


def linecol(text, off):
    return text.count('\n', 0, off) + 1, off - (text.rfind('\n', 0, off) + 1) + 1


def string_models(ctx, i, rep):
    """Both models come from strings (file name None for both): a library model handed to a GlobalRepo provider with
    add_model defines a name twice, the model being loaded refers to it. The error belongs to the text being loaded."""
    from textx import metamodel_from_str, TextXError
    import textx.scoping.providers as sp
    r = ctx.rng('strings', i)
    lib = r.choice(['', '\n', '// lib\n\n']) + 'def dup' + r.choice([' ', '\n\n   ', '\n']) + 'def other ' + r.choice(['', '\n\n\n']) + 'def dup\n'
    lead = ''.join(r.choice(['def a%d\n' % k, '\n', '   \n', '// c\n', 'def b%d ' % k]) for k in range(r.randint(0, 9)))
    stmt = 'ref zz ->' + r.choice([' ', '   ', '\n  ', '\t']) 
    text = lead + stmt + 'dup' + r.choice(['', '\n', ' def tail\n'])
    offset = len(lead) + len(stmt)
    prov = (sp.PlainNameGlobalRepo if r.random() < 0.7 else sp.FQNGlobalRepo)()
    mm = metamodel_from_str(M.GRAMMAR)
    mm.register_scope_providers({'*.*': prov})
    libm = mm.model_from_str(lib)
    prov.add_model(libm)
    wit = {'library_model (string)': lib, 'model (string)': text, 'provider': type(prov).__name__, 'offset': offset}
    ctx.count('two_string_models_cases')
    ctx.case(('two-string-models', text.count('\n', 0, offset), type(prov).__name__), True, wit if ctx.evaluations < 3 else None)
    try:
        mm.model_from_str(text)
    except TextXError as e:
        el, ec = linecol(text, offset)
        got = (getattr(e, 'filename', None), getattr(e, 'line', None), getattr(e, 'col', None))
        if 'not unique' not in str(e):
            # (the FQN lookup takes the first match: no ambiguity error there)
            ctx.violation(None, 'two string models: unexpected error %s' % str(e)[:100], wit, rep)
            return
        ctx.count('errors_checked')
        if got != (None, el, ec):
            ctx.violation(None, 'not-unique error for a reference in a string model (library model also a string): reported at '
                          '%s:%s:%s, the offending text is at None:%d:%d' % (got[0], got[1], got[2], el, ec), wit, rep)
        return
    if isinstance(prov, sp.PlainNameGlobalRepo):
        ctx.violation(None, 'two string models: the ambiguous name resolved without error', wit, rep)


def one(ctx, i, rep=None):
    from textx import metamodel_from_str, TextXError
    from textx.scoping import Postponed
    import textx.scoping.providers as sp
    rep = rep or {'i': i}
    if i % 20 == 13:
        return string_models(ctx, i, rep)
    r = ctx.rng('e', i)
    tmp = tempfile.mkdtemp(prefix='tvc28_')
    try:
        as_string = (i % 5 == 4)
        d = M.gen_dir(r, tmp, nfiles=1 if as_string else r.randint(1, 5), collisions=False)
        if as_string:
            d.files[d.order[0]]['imports'] = []
        M.add_refs(d, r, per_file=(0, 2))
        texts = {f: M.file_text(d, f) for f in d.order}
        top = r.choice(d.order)
        clo = M.closure(d, top)
        X = r.choice(clo)
        kind = KINDS[(i // 5) % 4] if not as_string else r.choice(KINDS)
        lead = r.choice(['', '\n', '\n\n  ', '   ', '\n// a comment\n', '\n\t', '\n\n\n// c1\n// c2\n    '])
        base = texts[X] + lead
        truncated = False
        if kind == 'syntax' and r.random() < 0.4:
            # a model that stops in the middle of a statement: the offending position is the end of the text
            # (after trailing blanks / line ends, if any)
            stmt, rel = r.choice(['ref zz ->', 'def', 'ref zz', 'def tr {', 'def tr { def q', 'ref']), None
            truncated = True
            ctx.count('syntax_error_at_end_of_text')
        elif kind == 'syntax':
            stmt, rel = '@@ junk', 0
        elif kind == 'unknown':
            stmt, rel = 'ref zz -> nowhere', len('ref zz -> ')
        elif kind == 'not_unique':
            stmt, rel = 'def dup def dup\nref zz ->   dup', len('def dup def dup\nref zz ->   ')
            imps = [y for y in d.files[X]['imports'] if y != X]
            if imps and r.random() < 0.5:
                # the two definitions are in the first imported file, the ambiguous reference (the offending text) is in X
                texts = dict(texts)
                texts[imps[0]] = texts[imps[0]] + '\ndef dupx\n\n\n   def dupx\n'
                stmt, rel = 'ref zz ->   dupx', len('ref zz ->   ')
                ctx.count('not_unique_definitions_in_imported_file')
        else:
            stmt, rel = 'ref zz -> never', len('ref zz -> ')
        if kind != 'syntax' and r.random() < 0.5:
            # the offending name as the k-th element of a reference list (one assignment, separator ',')
            bad = {'unknown': 'nowhere', 'not_unique': 'dup', 'postponed': 'never'}[kind]
            k = r.randint(0, 3)
            elems = ['lg%d' % q for q in range(r.randint(k, k + 2))]
            elems.insert(k, bad)
            head = 'def lg0 def lg1 def lg2 def lg3 def lg4 def lg5' + (' def dup def dup' if kind == 'not_unique' else '') + '\nref zz -> lg0 also '
            stmt = head
            rel = None
            for q, e in enumerate(elems):
                if q:
                    stmt += r.choice([',', ' , ', ',\n   ', '\n,\t', ', // c\n '])
                if q == k:
                    rel = len(stmt)
                stmt += e
            ctx.count('in_reference_list')
            if k:
                ctx.count('in_reference_list_not_first')
        newtext = base + stmt + (r.choice(['', '', '\n', ' \n\n', '  ', '\t', '\n   ']) if truncated else r.choice(['', '\n', ' \n\n']))
        offset = len(newtext) if truncated else len(base) + rel
        if truncated and not newtext.endswith('\n'):
            ctx.count('syntax_error_at_end_of_unterminated_last_line')
        texts = dict(texts)
        texts[X] = newtext
        M.write_dir(d, texts)
        eol = r.choice(['\n', '\n', '\r\n', '\r'])
        if eol != '\n' and not as_string:
            # files with CRLF / bare CR line ends: they are read with universal newlines, so line and column are those of
            # the text with '\n' line ends
            for f in d.order:
                with open(d.files[f]['path'], 'w', newline='') as fh:
                    fh.write(texts[f].replace('\n', eol))
            ctx.count('files_with_cr_line_ends' if eol == '\r' else 'files_with_crlf_line_ends')
        prov = 'plain' if kind == 'not_unique' else r.choice(['plain', 'fqn'])   # only the default (plain name) lookup reports ambiguity
        inner = sp.PlainNameImportURI() if prov == 'plain' else sp.FQNImportURI()

        class Wrap(sp.ImportURI):
            def __init__(self):
                sp.ImportURI.__init__(self, inner.scope_provider)

            def __call__(self, obj, attr, ref):
                if ref.obj_name == 'never':
                    return Postponed()
                return inner(obj, attr, ref)
        mm = metamodel_from_str(M.GRAMMAR)
        mm.register_scope_providers({'*.*': Wrap()})
        err = None
        try:
            if as_string:
                mm.model_from_str(texts[top])
            else:
                mm.model_from_file(d.files[top]['path'])
        except TextXError as e:
            err = e
        where = 'main' if X == top else 'imported'
        wit = {'files': texts, 'main': top, 'error_file': X, 'kind': kind, 'offset': offset, 'loaded_from': 'string' if as_string else 'file'}
        ctx.case((tuple(tuple(d.order.index(t) for t in d.files[f]['imports']) for f in d.order), kind, where, lead, as_string),
                 where == 'imported' or '\n' in lead, wit if ctx.evaluations < 2 else None)
        if err is None:
            ctx.violation(None, 'injected %s error in %s did not make the load fail' % (kind, X), wit, rep)
            return
        ctx.count('errors_checked')
        ctx.count('kind_' + kind)
        ctx.count('in_main_file' if where == 'main' else 'in_imported_file')
        if as_string:
            ctx.count('string_loads')
        exp_file = None if as_string else os.path.abspath(d.files[X]['path'])
        el, ec = linecol(newtext, offset)
        got = (getattr(err, 'filename', None), getattr(err, 'line', None), getattr(err, 'col', None))
        gf = os.path.abspath(got[0]) if got[0] else None
        if (gf, got[1], got[2]) != (exp_file, el, ec):
            ctx.violation(classify(kind, where, got, exp_file, el, ec), '%s error located in %s file %s: reported at %s:%s:%s, the offending text is at %s:%d:%d (%s)' % (
                kind, where, X, os.path.basename(got[0]) if got[0] else None, got[1], got[2],
                os.path.basename(exp_file) if exp_file else None, el, ec, str(err)[:80]), wit, rep)
    finally:
        shutil.rmtree(tmp, ignore_errors=True)


def classify(kind, where, got, exp_file, el, ec):
    return None


def run(ctx):
    for i in ctx.indices(6000 if ctx.tier == 'quick' else 10 ** 7, 'random'):
        one(ctx, i)


def replay(ctx, rep):
    one(ctx, rep['i'], rep)

"""C10 - FQN scope provider resolves only genuine qualified names."""
import itertools

ID = 'C10'
LEVEL = 'exploration'
QUICK_S = 45
THOROUGH_S = 600
EXHAUSTIVE_CLAIM = True
TECHNIQUE = ('runtime monitoring: the FQN provider is called (public provider protocol) for every referencing position x every '
             'dotted name over the names present x target class, and through full loads; results compared by identity with a '
             'reference walk over containment only')
RULE = ('random trees of nested packages, classes and attributes (names from a pool of 4, repeated at different depths, sibling '
        'names unique, extends/type/use references between them) x EVERY dotted name of <= 3 parts (quick) / <= 4 over the '
        'pool + one absent name, from every object of the model, for target classes Class, Package, Attr. Oracle: nearest '
        'start (referencing object, then ancestors) from which the parts follow contained named children to a conforming '
        'object; names never resolve through parent links or references. Also full loads where every reference text is '
        'chosen so that the oracle resolves it. distinct = (tree shape, query); non-trivial = the oracle says unresolved '
        'although a chain through parent/reference links exists, or resolution needs an outward step')
REQUIRED = {'queries': 20000, 'resolved_expected': 2000, 'unresolved_expected': 5000, 'spurious_chain_exists': 100,
            'outward_steps': 500, 'models': 50, 'full_loads_checked': 20}

GRAMMAR = '''
Model: packages*=Package;
Package: 'package' name=ID '{' (packages+=Package | classes+=Class | uses+=Use)* '}';
Class: 'class' name=ID ('extends' sup=[Class:FQN])? '{' attrs*=Attr '}';
Attr: 'attr' name=ID (':' type=[Class:FQN])? ('in' pkg=[Package:FQN])?;
Use: 'use' ref=[Class:FQN];
FQN: ID('.'ID)*;
'''
POOL = ['a', 'b', 'c', 'd']
_mm = {}


def mm_for(provider_kind):
    from textx import metamodel_from_str
    import textx.scoping.providers as sp
    if provider_kind not in _mm:
        mm = metamodel_from_str(GRAMMAR)
        if provider_kind == 'abs':
            mm.register_scope_providers({'*.*': absolute_provider})
        else:
            mm.register_scope_providers({'*.*': sp.FQN()})
        _mm[provider_kind] = mm
    return _mm[provider_kind]


def named_children(o):
    """contained named children (what the grammar contains, by rule)"""
    k = type(o).__name__
    if k == 'Model':
        return list(o.packages)
    if k == 'Package':
        return list(o.packages) + list(o.classes)
    if k == 'Class':
        return list(o.attrs)
    return []


def root_of(o):
    while hasattr(o, 'parent'):
        o = o.parent
    return o


def absolute_provider(obj, attr, ref):
    """used only to build the models: names are absolute paths from the model root"""
    cur = root_of(obj)
    for part in ref.obj_name.split('.'):
        nxt = [c for c in named_children(cur) if c.name == part]
        if not nxt:
            return None
        cur = nxt[0]
    return cur


def ref_fqn(obj, parts, clsname):
    """(target or None, number of outward steps)"""
    start = obj
    steps = 0
    while True:
        cur = start
        ok = True
        for part in parts:
            nxt = [c for c in named_children(cur) if c.name == part]
            if not nxt:
                ok = False
                break
            cur = nxt[0]
        if ok and type(cur).__name__ == clsname:
            return cur, steps
        if not hasattr(start, 'parent'):
            return None, steps
        start = start.parent
        steps += 1


def spurious_chain(obj, parts):
    """is there a chain following ANY attribute holding named objects (incl. parent and references)?"""
    start = obj
    while True:
        frontier = [start]
        for part in parts:
            nxt = []
            for cur in frontier:
                for a, v in list(vars(cur).items()):
                    if a.startswith('_'):
                        continue
                    vs = v if isinstance(v, list) else [v]
                    for x in vs:
                        if getattr(x, 'name', None) == part and hasattr(type(x), '_tx_attrs'):
                            nxt.append(x)
            frontier = nxt
            if not frontier:
                break
        if frontier:
            return True
        if not hasattr(start, 'parent'):
            return False
        start = start.parent


def gen_model(r):
    """returns text; all references are absolute paths"""
    classes = []   # absolute paths
    pkgs = []
    attrs = []

    def pkg(depth, path):
        s = ''
        used = set()
        for _ in range(r.randint(1, 4)):
            nm = r.choice(POOL)
            if nm in used:
                continue
            used.add(nm)
            p = path + [nm]
            if depth < 3 and r.random() < 0.45:
                pkgs.append(p)
                s += 'package %s { %s } ' % (nm, pkg(depth + 1, p))
            else:
                sup = ''
                if classes and r.random() < 0.5:
                    sup = ' extends ' + '.'.join(r.choice(classes))
                body = ''
                ua = set()
                for _ in range(r.randint(0, 3)):
                    an = r.choice(POOL)
                    if an in ua:
                        continue
                    ua.add(an)
                    t = (' : ' + '.'.join(r.choice(classes))) if classes and r.random() < 0.5 else ''
                    ip = (' in ' + '.'.join(r.choice(pkgs))) if pkgs and r.random() < 0.3 else ''
                    body += 'attr %s%s%s ' % (an, t, ip)
                    attrs.append(p + [an])
                classes.append(p)
                s += 'class %s%s { %s} ' % (nm, sup, body)
        if classes and r.random() < 0.5:
            s += 'use %s ' % '.'.join(r.choice(classes))
        return s
    txt = ''
    used = set()
    for _ in range(r.randint(1, 3)):
        nm = r.choice(POOL)
        if nm in used:
            continue
        used.add(nm)
        pkgs.append([nm])
        txt += 'package %s { %s }\n' % (nm, pkg(1, [nm]))
    return txt


def one(ctx, i, rep=None):
    from textx import get_children, TextXError
    from textx.model import ObjCrossRef
    import textx.scoping.providers as sp
    rep = rep or {'i': i}
    r = ctx.rng('m', i)
    text = gen_model(r)
    mm = mm_for('abs')
    try:
        m = mm.model_from_str(text)
    except TextXError as e:
        ctx.violation(None, 'harness model rejected: %s' % str(e)[:120], {'model': text}, rep)
        return
    ctx.count('models')
    objs = get_children(lambda x: True, m)
    fqn = sp.FQN()
    maxparts = 3 if ctx.tier == 'quick' else 4
    names = POOL + ['zz']
    queries = [q for n in range(1, maxparts + 1) for q in itertools.product(names, repeat=n)]
    if ctx.tier != 'quick' and len(objs) > 25:
        objs = r.sample(objs, 25)
    attr = type(m.packages[0])._tx_attrs['name'] if m.packages else None
    wit = {'model': text}
    for o in objs:
        for clsname in ('Class', 'Package', 'Attr'):
            cls = mm[clsname]
            for q in queries:
                exp, steps = ref_fqn(o, q, clsname)
                try:
                    got = fqn(o, attr, ObjCrossRef('.'.join(q), cls, 0, None, 'FQN'))
                except Exception as e:
                    got = ('exception', type(e).__name__)
                ctx.count('queries')
                nontriv = False
                if exp is None:
                    ctx.count('unresolved_expected')
                    if len(q) > 1 and spurious_chain(o, q):
                        ctx.count('spurious_chain_exists')
                        nontriv = True
                else:
                    ctx.count('resolved_expected')
                    if steps:
                        ctx.count('outward_steps')
                        nontriv = True
                if ctx.evaluations < 150000:
                    ctx.case((text, id(o) % 1000, clsname, q), nontriv,
                             {'model': text[:400], 'from': '%s %r' % (type(o).__name__, getattr(o, 'name', None)), 'name': '.'.join(q),
                              'target_class': clsname, 'expected': describe(exp), 'got': describe(got)}
                             if (nontriv and len(ctx.samples) < 2) else None)
                else:
                    ctx.evaluations += 1
                if got is not exp:
                    ctx.violation(classify(o, q, exp, got), 'FQN provider: from %s %r the name %r (target %s) gives %s, the qualified-name rule gives %s' % (
                        type(o).__name__, getattr(o, 'name', None), '.'.join(q), clsname, describe(got), describe(exp)),
                        dict(wit, frm=describe(o), name='.'.join(q), target=clsname), rep)
                    return
    # ---- full loads with the real provider: every reference written as the shortest suffix of the target's
    # qualified name that the oracle resolves to that target from the referencing object ----
    order = []
    for o in sorted(get_children(lambda x: True, m), key=lambda x: x._tx_position):
        for an in ('sup', 'type', 'pkg', 'ref', 'aref'):
            v = getattr(o, an, None)
            if v is not None:
                order.append((o, an, v))
    import re
    spans = [mt for mt in re.finditer(r'(?:extends|:|\bin|use|\battr(?= [a-d](?:\.[a-d])*\s*(?:}|use|class|package|attr|$)))\s+([a-d](?:\.[a-d])*)', text)]
    reftexts = re.findall(r'(?:extends |: |in |use )([a-d](?:\.[a-d])*)', text)
    if len(reftexts) != len([x for x in order if x[1] != 'aref']):
        ctx.count('full_load_layout_skipped')
        return
    parts_out = []
    pos = 0
    k = 0
    new_text = ''
    expected = []
    for mt in re.finditer(r'(extends |: |in |use )([a-d](?:\.[a-d])*)', text):
        o, an, v = [x for x in order if x[1] != 'aref'][k]
        k += 1
        full = mt.group(2).split('.')
        choice = full
        for n in range(1, len(full) + 1):
            suf = full[-n:]
            t, _ = ref_fqn(o, suf, type(v).__name__)
            if t is v:
                choice = suf
                break
        new_text += text[pos:mt.start(2)] + '.'.join(choice)
        pos = mt.end(2)
        # what the qualified-name rule gives for the text as written (a nearer object may shadow the absolute target)
        t, _ = ref_fqn(o, choice, type(v).__name__)
        if t is None:
            ctx.count('full_load_unresolvable_reference_skipped')
            return
        expected.append(describe(t))
    new_text += text[pos:]
    mm2 = mm_for('fqn')
    try:
        m2 = mm2.model_from_str(new_text)
    except TextXError as e:
        ctx.violation(None, 'full load: every reference is written as a resolvable qualified name, yet: %s' % str(e)[:120],
                      {'model': new_text}, rep)
        return
    ctx.count('full_loads_checked')
    got = []
    for o in sorted(get_children(lambda x: True, m2), key=lambda x: x._tx_position):
        for an in ('sup', 'type', 'pkg', 'ref'):
            v = getattr(o, an, None)
            if v is not None:
                got.append(describe(v))
    if got != expected:
        for e_, g_ in zip(expected, got):
            if e_ != g_:
                ctx.violation(None, 'full load: a reference resolved to %s, the qualified-name rule gives %s' % (g_, e_),
                              {'model': new_text}, rep)
                return


def describe(o):
    if o is None:
        return 'unresolved'
    if isinstance(o, tuple):
        return repr(o)
    path = []
    p = o
    while p is not None and hasattr(p, 'name'):
        path.insert(0, p.name)
        p = getattr(p, 'parent', None)
    return '%s %s' % (type(o).__name__, '.'.join(path))


def classify(o, q, exp, got):
    return None


def run(ctx):
    for i in ctx.indices(600 if ctx.tier == 'quick' else 3000, 'random'):
        one(ctx, i)


def replay(ctx, rep):
    one(ctx, rep['i'], rep)

"""C03 - rule kinds determine what objects a model contains."""
from tv import pegdiff as P
from tv import refpeg as RP
from tv.refpeg import Assign, Choice, Grammar, Lit, Re, Ref, Rep, Rule, Seq, Node, Tok

ID = 'C03'
LEVEL = 'exploration'
QUICK_S = 60
THOROUGH_S = 900
TECHNIQUE = ('runtime monitoring: rule kinds/inheritance observed on the metamodel vs fixpoint reference; objects and abstract-rule '
             'results vs reference derivation; textx_isinstance matrix over all objects x rules vs reference closure')
RULE = ('random grammars with 2-4 common, 2-4 match (single token, multi token, regex, choice, separated repetition) and 1-4 '
        'abstract rules whose alternatives mix references to common rules, to abstract rules (chains and keyword-guarded cycles), '
        'to match rules, base types and sequences (keyword+common, match+common, common+match, all-match, and sequences whose first non-match reference is another abstract rule: match+abstract, abstract+common, abstract+match); 15 (quick) / 20 '
        'derived inputs each. Checked: _tx_type of every rule; every object reachable in the model is an instance of a common '
        'rule; accept/dump equality with the reference (abstract result selection); textx_isinstance(o, R) for every object x '
        'every rule + OBJECT vs the reference closure. distinct = (grammar skeleton, input token kinds); non-trivial = the '
        'derivation passes through an abstract rule whose matched alternative is a sequence or another abstract rule')
# (seed, replay record) of cases that showed a defect once; replayed in every run
REGRESSIONS = [(0, {'i': 9779})]      # cyclic-abstract-stale-inheritance (found by the thorough tier)
REQUIRED = {'grammars': 100, 'kinds_checked': 500, 'isinstance_pairs': 5000, 'abstract_results_observed': 500,
            'abstract_cycles': 5, 'match_before_common_alternatives': 5, 'objects_checked': 1000,
            'abstract_reference_in_sequence_alternatives': 20, 'all_terminal_alternatives_with_base_types': 10}


class Gen:
    def __init__(self, r):
        self.r = r
        self.kw = 0

    def k(self, p='k'):
        self.kw += 1
        return Lit('%s%d' % (p, self.kw))

    def grammar(self):
        r = self.r
        self.common = ['C%d' % i for i in range(r.randint(2, 4))]
        self.match = ['M%d' % i for i in range(r.randint(2, 4))]
        self.abs = ['A%d' % i for i in range(r.randint(1, 4))]
        self.features = set()
        rules = [Rule('Model', Seq([self.k(), Assign('vals', '+=', Ref('A0'), sep=Lit(',') if r.random() < 0.5 else None),
                                     Lit(';'), Assign('more', '*=', Ref(r.choice(self.abs + self.common)))]))]
        for i, n in enumerate(self.common):
            items = [self.k('c')]
            items.append(Assign('name', '=', Ref('ID')))
            c = r.random()
            if c < 0.5:
                items.append(Assign('x', '=', Ref(r.choice(self.abs))))
            elif c < 0.7:
                items.append(Seq([Lit('['), Assign('xs', '*=', Ref(r.choice(self.abs)), sep=Lit(',')), Lit(']')]))
            if r.random() < 0.3:
                items.append(Assign('m', '=', Ref(r.choice(self.match))))
            # keep recursion finite: objects need an explicit terminator
            items.append(Lit('.'))
            rules.append(Rule(n, Seq(items)))
        for i, n in enumerate(self.abs):
            rules.append(Rule(n, self.abstract_body(i)))
        for i, n in enumerate(self.match):
            rules.append(Rule(n, self.match_body(i)))
        return Grammar(rules)

    def abstract_body(self, i):
        r = self.r
        alts = []
        for _ in range(r.randint(2, 4)):
            c = r.random()
            if c < 0.25:
                alts.append(Ref(r.choice(self.common)))
            elif c < 0.40:
                later = self.abs[i + 1:]
                if later and r.random() < 0.6:
                    alts.append(Ref(r.choice(later)))
                    self.features.add('abstract-chain')
                else:
                    # cycle through an earlier/same abstract rule, guarded so that derivations terminate
                    alts.append(Seq([Lit('('), Ref(r.choice(self.abs[:i + 1])), Lit(')')]))
                    self.features.add('abstract-cycle')
            elif c < 0.5:
                alts.append(Ref(r.choice(self.match)))
            elif c < 0.58:
                alts.append(Ref(r.choice(['INT', 'STRING', 'FLOAT', 'BOOL'])))
            elif c < 0.68:
                alts.append(Seq([self.k(), Ref(r.choice(self.common))]))
            elif c < 0.78:
                alts.append(Seq([Ref(r.choice(self.match)), Ref(r.choice(self.common))]))
                self.features.add('match-before-common')
            elif c < 0.86:
                alts.append(Seq([self.k(), Ref(r.choice(self.common)), Ref(r.choice(self.match))]))
            elif c < 0.89:
                alts.append(Seq([self.k(), Ref(r.choice(self.match))]))
                self.features.add('all-match-seq')
            elif c < 0.92:
                alts.append(Seq([Ref(r.choice(self.match)), Ref(r.choice(self.match))]))
                self.features.add('all-match-seq')
            elif c < 0.935:
                # only terminals, among them base types whose text differs from str() of the converted value (+5, "s", 1.50)
                alts.append(Seq([self.k(), Ref(r.choice(['INT', 'STRING', 'FLOAT', 'BOOL', 'INT'])), self.k('t')]))
                self.features.add('all-terminal-seq-with-base-type')
            elif c < 0.96:
                # sequences whose first non-match reference is another abstract rule
                later = self.abs[i + 1:]
                a_ref = Ref(r.choice(later)) if later else Ref(r.choice(self.abs[:i + 1]))
                shape = r.randrange(4)
                if shape == 0:
                    alts.append(Seq([Ref(r.choice(self.match)), self.k(), a_ref]))
                elif shape == 1:
                    alts.append(Seq([self.k(), a_ref, Ref(r.choice(self.common))]))
                elif shape == 2:
                    alts.append(Seq([self.k(), a_ref, Ref(r.choice(self.match))]))
                else:
                    alts.append(Seq([Ref(r.choice(self.match)), self.k(), a_ref, Ref(r.choice(self.common))]))
                self.features.add('abstract-ref-in-sequence')
            else:
                alts.append(Ref(r.choice(self.common)))
        if not any(isinstance(a, Ref) and a.name in self.common for a in alts):
            alts.append(Ref(r.choice(self.common)))
        return Choice(alts)

    def match_body(self, i):
        r = self.r
        c = r.random()
        later = self.match[i + 1:]
        if c < 0.25:
            return self.k('m')
        if c < 0.45:
            return Seq([self.k('m'), Ref(r.choice(['INT', 'ID']))])
        if c < 0.55:
            return Re(r'#[0-9a-f]{2}')
        if c < 0.7:
            return Choice([self.k('m'), self.k('m')])
        if c < 0.8 and later:
            return Choice([Ref(r.choice(later)), self.k('m')])
        if c < 0.9:
            return Seq([self.k('m'), Rep(Ref('INT'), 1, Lit(':'))])
        return Seq([Lit('<', suppress=True), Ref('ID'), Lit('>', suppress=True)])


def ref_children(g, kinds):
    """reference 'inherits' relation: for an abstract rule, the rule providing the result of each alternative"""
    ch = {}
    for rl in g.rules:
        if kinds[rl.name] != 'abstract':
            continue
        alts = rl.body.alts if isinstance(rl.body, Choice) else [rl.body]
        out = []
        for a in alts:
            refs = [x for x in RP.refs_in(a) if x.name in kinds and kinds[x.name] != 'match']
            if refs:
                out.append(refs[0].name)
        ch[rl.name] = out
    return ch


def closure(ch, R):
    seen = set()
    todo = [R]
    while todo:
        x = todo.pop()
        for y in ch.get(x, []):
            if y not in seen:
                seen.add(y)
                todo.append(y)
    return seen


def abstract_nodes(tree, kinds):
    """(rule, children kinds) for every abstract-rule node in the reference derivation"""
    out = []

    def walk(t):
        if isinstance(t, Node):
            if kinds.get(t.rule) == 'abstract':
                out.append(t)
            for c in t.children:
                walk(c)
        elif isinstance(t, RP.Asg):
            for it in t.items:
                if isinstance(it, list):
                    for x in it:
                        walk(x)
                else:
                    walk(it)
    walk(tree)
    return out


def classify(g, kinds, tree, ref, got):
    """known mechanism: an abstract alternative that references only match rules, at least one of which is a
    multi-token match rule, yields that rule's text instead of the concatenation (kept by test_issue166)."""
    if tree is None or ref[0] != 'ok' or got[0] != 'ok':
        return None
    for emu in ('abstract-all-match:first-nonterminal',):
        b = RP.Builder(g, True, False, emulate=[emu])
        if ('ok', RP.dump_ref(b.value(tree))) == got:
            return 'abstract-all-match-alternative'
    return None


def all_objects(model):
    seen = {}
    todo = [model]
    while todo:
        o = todo.pop()
        if id(o) in seen or isinstance(o, (str, int, float, bool)) or o is None:
            continue
        cls = type(o)
        if not hasattr(cls, '_tx_attrs'):
            continue
        seen[id(o)] = o
        for a in cls._tx_attrs:
            v = getattr(o, a, None)
            if isinstance(v, list):
                todo.extend(v)
            else:
                todo.append(v)
    return list(seen.values())


def one(ctx, i, rep=None):
    with ctx.time_limit(30):
        _one(ctx, i, rep)


def _one(ctx, i, rep=None):
    from textx import metamodel_from_str, TextXError, textx_isinstance
    rep = rep or {'i': i}
    r = ctx.rng('g', i)
    gen = Gen(r)
    g = gen.grammar()
    text = RP.pr_grammar(g)
    try:
        mm = metamodel_from_str(text)
    except TextXError as e:
        ctx.violation(None, 'generated grammar rejected: %s' % str(e)[:100], {'grammar': text}, rep)
        return
    ctx.count('grammars')
    if 'abstract-cycle' in gen.features:
        ctx.count('abstract_cycles')
    if 'match-before-common' in gen.features:
        ctx.count('match_before_common_alternatives')
    if 'abstract-ref-in-sequence' in gen.features:
        ctx.count('abstract_reference_in_sequence_alternatives')
    if 'all-terminal-seq-with-base-type' in gen.features:
        ctx.count('all_terminal_alternatives_with_base_types')
    kinds = RP.rule_kinds(g)
    for rl in g.rules:
        ctx.count('kinds_checked')
        if mm[rl.name]._tx_type != kinds[rl.name]:
            ctx.violation(None, 'rule %s is %s by the grammar definition but textX classifies it as %s' % (
                rl.name, kinds[rl.name], mm[rl.name]._tx_type), {'grammar': text, 'rule': rl.name}, rep)
            return
    ch = ref_children(g, kinds)
    skel = P.skeleton(g)
    cfg = {'skipws': True, 'auto_init_attributes': True}
    n = 15 if ctx.tier == 'quick' else 20
    for s in P.make_inputs(g, r, cfg, n, mutate_every=5):
        ref, tree = P.ref_outcome(g, s, cfg)
        if ref[0] == 'budget':
            continue
        try:
            model = mm.model_from_str(s)
            got = ('ok', P.dump_tx(model))
        except TextXError as e:
            model = None
            got = ('reject',) if type(e).__name__ == 'TextXSyntaxError' else ('semerr', str(e)[:100])
        except RecursionError:
            model, got = None, ('crash', 'RecursionError')
        nontriv = False
        if tree is not None:
            an = abstract_nodes(tree, kinds)
            ctx.count('abstract_results_observed', len(an))
            nontriv = any(len(x.children) > 1 or (x.children and isinstance(x.children[0], Node) and
                                                   kinds[x.children[0].rule] == 'abstract') for x in an)
        ctx.case((skel, P.token_kinds(s)), nontriv, {'grammar': text, 'input': s} if ctx.evaluations < 2 else None)
        wit = {'grammar': text, 'input': s, 'reference': repr(ref)[:1500], 'textx': repr(got)[:1500]}
        if ref != got:
            ctx.violation(classify(g, kinds, tree, ref, got), 'reference %s / textX %s on %r' % (ref[0], got[0], s[:60]), wit, rep)
            continue
        if model is None or isinstance(model, (str, int, float, bool)):
            continue
        objs = all_objects(model)
        for o in objs:
            ctx.count('objects_checked')
            rn = type(o).__name__
            if kinds.get(rn) != 'common':
                ctx.violation(None, 'model contains an instance of %s rule %s' % (kinds.get(rn), rn), wit, rep)
                break
            bad = None
            for rl in g.rules:
                exp = rl.name == rn or rn in closure(ch, rl.name)
                ctx.count('isinstance_pairs')
                try:
                    res = textx_isinstance(o, mm[rl.name])
                except RecursionError:
                    res = 'RecursionError'
                if res != exp:
                    bad = (rl.name, res, exp)
                    break
            if bad is None and textx_isinstance(o, mm['OBJECT']) is not True:
                bad = ('OBJECT', False, True)
            if bad:
                ctx.violation(None, 'textx_isinstance(<%s object>, %s) is %r, expected %r' % (rn, bad[0], bad[1], bad[2]), wit, rep)
                break


def run(ctx):
    n = 1500 if ctx.tier == 'quick' else 40000
    for i in ctx.indices(n, 'random'):
        one(ctx, i)


def replay(ctx, rep):
    one(ctx, rep['i'], rep)

"""C22 - whitespace and comments between tokens do not change the model."""
from tv import pegdiff as P
from tv import refpeg as RP
from tv.hooks import install_match_log, install_parse_state

ID = 'C22'
LEVEL = 'exploration'
QUICK_S = 60
THOROUGH_S = 900
TECHNIQUE = ('runtime monitoring: Arpeggio Match.parse hook (whitespace set and skipping flag in force at every terminal match, '
             'characters actually skipped) checked against the modifier stack of a reference derivation; metamorphic insertion '
             'of active / inactive whitespace and comments at token boundaries')
RULE = ('random grammars (profile: many skipws/noskipws/ws= rule modifiers on sequence-, choice- and single-match-bodied '
        'rules, Comment rule in half of them, global skipws/ws options) x derived inputs accepted by textX and by the '
        'reference with equal models. Per input: (i) hook: for every token of the final derivation the whitespace set / '
        'skipping flag textX had in force equals the one the innermost modifier prescribes, and every skipped character is in '
        'that set or inside a Comment match; (ii) at every token boundary (quick: up to 12 per input) insert characters of '
        'the active set, or a comment, and require the same model; (iii) insert a character that is NOT in the active set '
        'and require the outcome the reference gives (normally rejection). distinct = (grammar skeleton, token kinds, '
        'boundary kind); non-trivial = boundary lies inside a rule with a modifier, a Comment grammar, or under eolterm')
REQUIRED = {'inputs': 200, 'tokens_context_checked': 2000, 'insertions_active': 500, 'insertions_inactive': 100,
            'comment_insertions': 30, 'modifier_boundaries': 100, 'skipped_spans_checked': 1000,
            'inputs_with_suppressed_tokens_made_visible': 50, 'grammars_with_alias_comment_rule': 10}

ML = None
PS = None


def last_match_event(events, start, end):
    """the match event of the final path for the token at [start,end): the last successful one there"""
    for ev in reversed(events):
        if ev[0] != 'match' or ev[5] != end:
            continue
        if ev[4] == start:
            return ev
        if ev[4] == ev[5] and ev[3] <= start:
            # a suppressed match leaves no node to take the start from: the hook records start = end; it began its
            # whitespace skipping at ev[3] <= start
            return ev
    return None


def one(ctx, i, rep=None):
    with ctx.time_limit(30):
        _one(ctx, i, rep)


def _one(ctx, i, rep=None):
    from textx import metamodel_from_str, TextXError
    from tv.ggen import G
    global ML, PS
    ML = install_match_log()
    PS = install_parse_state()
    rep = rep or {'i': i}
    r = ctx.rng('g', i)
    gen_ = G(r, 0.0, pskip=0.35, pws=0.2, pcomment=0.5)
    if i % 3 == 0:
        # many suppressed references to match rules (which carry whitespace modifiers of their own)
        gen_.psupref = 0.2
        gen_.pskip, gen_.pws = 0.5, 0.3
    g = gen_.grammar()
    if g.rule('Comment') is not None and i % 4 == 1:
        # the Comment rule as an alias of another match rule
        cr = g.rule('Comment')
        g.rules.append(RP.Rule('CommentBody', cr.body))
        cr.body = RP.Ref('CommentBody')
        ctx.count('grammars_with_alias_comment_rule')
    text = RP.pr_grammar(g)
    cfg = dict(skipws=r.random() < 0.85, auto_init_attributes=True, use_regexp_group=False)
    if r.random() < 0.25:
        cfg['ws'] = r.choice([' ', ' \t', ' \n'])
    try:
        mm = P.make_mm(text, **cfg)
    except TextXError as e:
        ctx.violation(None, 'generated grammar rejected: %s' % str(e)[:100], {'grammar': text}, rep)
        return
    skel = P.skeleton(g)
    comment_rule = g.rule('Comment')
    # tokens matched by suppressed expressions are absent from the derivation: a copy of the grammar without the
    # suppression operators yields them (same matching, every token visible)
    g_all = RP.unsuppressed(g) if 'suppress' in P.grammar_features(g) else None
    base_ws = cfg.get('ws', '\t\n\r ')
    for s in P.make_inputs(g, r, cfg, 6 if ctx.tier == 'quick' else 10, mutate_every=0):
        ref, tree = P.ref_outcome(g, s, cfg)
        if ref[0] != 'ok':
            continue
        ML.clear()
        ML.enabled = True
        sr0 = PS.stripped_restores
        try:
            got = P.textx_outcome(mm, s)
        finally:
            ML.enabled = False
        events = list(ML.events)
        stripped = PS.stripped_restores - sr0
        if got[0] == 'crash' and 'RecursionError' not in got[1]:
            # an input the grammar accepts makes loading raise something that is not a textX error
            ctx.violation(None, 'loading an accepted input raised %s' % got[1][:120], {'grammar': text, 'input': s, 'config': cfg}, rep)
            ctx.case((skel, P.token_kinds(s), 'crash'), True)
            break
        if got != ref:
            continue        # acceptance/model divergences are C01's business
        ctx.count('inputs')
        toks = RP.all_tokens(tree)
        if g_all is not None:
            ref_all, tree_all = P.ref_outcome(g_all, s, cfg)
            if ref_all[0] == 'ok':
                toks = RP.all_tokens(tree_all)
                ctx.count('inputs_with_suppressed_tokens_made_visible')
        wit = {'grammar': text, 'input': s, 'config': cfg}
        # ---- (i) hook invariant -------------------------------------------
        bad = None
        for t in toks:
            ev = last_match_event(events, t.start, t.end)
            if ev is None:
                continue
            _, rule_name, kind, p0, start, end, to_match, ws, skipws, eol, in_c, ic, _id = ev
            ctx.count('tokens_context_checked')
            if start == end and t.start < end:
                start = t.start     # suppressed match: see last_match_event
                ctx.count('suppressed_match_events_checked')
            tx_ws = ws if skipws else ''
            if set(tx_ws) != set(t.ws) and not t.in_comment:
                bad = ('token %r at %d: textX had whitespace set %r (skipws=%r) in force, the grammar modifiers prescribe %r'
                       % (t.text, t.start, ws, skipws, t.ws))
                break
            skipped = s[p0:start]
            if skipped:
                ctx.count('skipped_spans_checked')
                rest = skipped
                # remove comment matches, what is left must be whitespace of the active set
                if comment_rule is not None and not in_c:
                    import re
                    rest = re.sub(RP.comment_pattern(g), '', rest, flags=re.M)
                if any(ch not in tx_ws for ch in rest) and not (comment_rule is not None and not skipws):
                    bad = 'before token %r at %d textX skipped %r which is not in the active set %r' % (t.text, t.start, skipped, tx_ws)
                    break
        if bad:
            key = 'eolterm-ws-restore' if stripped else None
            ctx.violation(key, bad, wit, rep)
            ctx.case((skel, P.token_kinds(s), 'hook'), True)
            continue
        # ---- (ii)/(iii) insertions -----------------------------------------
        idxs = list(range(len(toks)))
        r.shuffle(idxs)
        limit = 12 if ctx.tier == 'quick' else 40
        for k in idxs[:limit]:
            t = toks[k]
            if t.in_comment:
                continue
            in_mod = t.ws != (base_ws if cfg['skipws'] else '')
            if in_mod:
                ctx.count('modifier_boundaries')
            choices = []
            if t.ws:
                choices.append(('active', ''.join(r.choice(t.ws) for _ in range(r.randint(1, 3)))))
            inactive = [c for c in ' \t\n' if c not in t.ws]
            if inactive:
                choices.append(('inactive', r.choice(inactive)))
            if comment_rule is not None:
                line = RP.comment_pattern(g).startswith('\\/\\/') or RP.comment_pattern(g).startswith('//')
                # a line comment needs its terminating newline, which must itself be skippable here
                if not line:
                    choices.append(('comment', '/* x1 */'))
                elif '\n' in t.ws:
                    choices.append(('comment', '// x1\n'))
            for what, ins in choices:
                s2 = s[:t.start] + ins + s[t.start:]
                ref2, _ = P.ref_outcome(g, s2, cfg)
                if ref2[0] == 'budget':
                    continue
                sr1 = PS.stripped_restores
                ML.clear()
                ML.enabled = True
                try:
                    got2 = P.textx_outcome(mm, s2)
                finally:
                    ML.enabled = False
                stripped2 = PS.stripped_restores - sr1
                if ML.comment_cache_mismatch:
                    stripped2 = ('comment-cache', stripped2)
                g2 = ('reject',) if got2[0] == 'reject' else got2
                ctx.count({'active': 'insertions_active', 'inactive': 'insertions_inactive', 'comment': 'comment_insertions'}[what])
                ctx.case((skel, P.token_kinds(s), what, in_mod), in_mod or what == 'comment',
                         {'grammar': text, 'input': s, 'inserted': ins, 'at': t.start, 'kind': what} if ctx.evaluations < 3 else None)
                w2 = dict(wit, inserted=ins, at=t.start, kind=what, mutated=s2, reference=repr(ref2)[:600], textx=repr(got2)[:600])
                if what in ('active', 'comment') and ref2 == ref:
                    if g2 != ref:
                        ctx.violation(classify(g, s2, cfg, ref2, got2, stripped2, mm),
                                      'inserting %r (%s) before token %r at %d changes the outcome: %s' % (
                                          ins, 'whitespace of the active set' if what == 'active' else 'a comment', t.text, t.start, got2[0]),
                                      w2, rep)
                        break
                elif g2 != ref2:
                    ctx.violation(classify(g, s2, cfg, ref2, got2, stripped2, mm),
                                  'inserting %r (%s) before token %r at %d: textX %s, grammar semantics give %s' % (
                                      ins, what, t.text, t.start, got2[0], ref2[0]), w2, rep)
                    break


def classify(g, s, cfg, ref, got, stripped, mm=None):
    from tv.props.c01 import classify_div, classify_ws_restore
    cc = False
    if isinstance(stripped, tuple):
        cc, stripped = True, stripped[1]
    k = classify_div(g, s, cfg, ref, got, set(), stripped)
    if k is None and stripped and mm is not None:
        # explained-by: the divergence disappears on an Arpeggio that saves / restores the real whitespace set
        k = classify_ws_restore(mm, g, s, cfg, ref, stripped)
    if k is None and cc:
        # the monitor saw a comment-cache entry stored under one whitespace mode used under another
        return 'comment-cache-ignores-ws-mode'
    return k


def run(ctx):
    n = 600 if ctx.tier == 'quick' else 15000
    for i in ctx.indices(n, 'random'):
        one(ctx, i)


def replay(ctx, rep):
    one(ctx, rep['i'], rep)

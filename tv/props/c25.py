"""C25 - grammar imports resolve rules in the documented order."""
import os
import shutil
import tempfile

ID = 'C25'
LEVEL = 'exploration'
QUICK_S = 45
THOROUGH_S = 300
TECHNIQUE = ('runtime monitoring: every rule of every generated grammar file starts with a literal that encodes (file, rule), so '
             'the accepted model text and the class of every parsed object prove which rule a name was bound to; compared '
             'with a reference resolver (current file, then imports in order); class identity / qualified-name census')
RULE = ('random trees of 2-7 grammar files in up to 3 directory levels (root, pkg, pkg/sub, pkg/sub/deep) with random import '
        'graphs (imports relative to the importing file\'s package; diamonds, repeated imports, cycles in 30%), overlapping '
        'rule names A-D defined in several files, rules that reference other names (resolved from their own file), alias rules (X: Y;) incl. aliases whose target is not visible from the root file. Checked: '
        'the model text built from the reference resolution is accepted and every object\'s class has the expected '
        'file-based qualified name; mm[name] (unqualified, from the root file) and mm[qualified] return the expected classes; '
        'one class per (file, rule) however often the file is imported. distinct = (directory layout, import graph, rule '
        'distribution); non-trivial = a name is defined in >= 2 visible files, or the graph has a diamond or cycle')
REQUIRED = {'grammar_trees': 200, 'objects_checked': 800, 'names_with_competing_definitions': 200, 'qualified_lookups': 1000,
            'deep_imports': 50, 'diamonds': 20, 'cyclic_trees': 20,
            'alias_rules': 100, 'alias_to_rule_not_visible_from_root': 10, 'qualified_link_references': 100,
            'attribute_types_checked': 300, 'attribute_typed_by_a_rule_defined_later_in_the_file': 30}

DIRS = ['', 'pkg', 'pkg/sub', 'pkg/sub/deep']
NAMES = ['A', 'B', 'C', 'D']


def ns_of(path):
    return path[:-3].replace('/', '.')


def gen_tree(r):
    n = r.randint(2, 7)
    files = ['main.tx']
    for k in range(1, n):
        d = r.choice(DIRS)
        files.append((d + '/' if d else '') + 'g%d.tx' % k)
    info = {f: {'imports': [], 'defs': {}} for f in files}
    cyclic = r.random() < 0.4
    for f in files:
        d = os.path.dirname(f)
        # reachable: files in the same directory or below (imports are relative to the importing file's package)
        cands = [g for g in files if g != f and (os.path.dirname(g) == d or os.path.dirname(g).startswith(d + '/' if d else ''))
                 and g != 'main.tx']
        if not cyclic:
            cands = [g for g in cands if files.index(g) > files.index(f)]
        for _ in range(r.choice([0, 1, 2, 2, 3])):
            if cands:
                g = r.choice(cands)
                if r.random() < 0.85 and g in info[f]['imports']:
                    continue
                info[f]['imports'].append(g)
    for f in files:
        if f == 'main.tx':
            defs = r.sample(NAMES, r.randint(0, 2))
        else:
            defs = r.sample(NAMES, r.randint(1, 3))
        for name in defs:
            info[f]['defs'][name] = None     # nested reference decided below
    return files, info


def resolve(info, f, name):
    """documented order: the file itself, then its imports in import order"""
    if name in info[f]['defs']:
        return f
    seen = set()
    for g in info[f]['imports']:
        if g in seen:
            continue
        seen.add(g)
        if name in info[g]['defs']:
            return g
    return None


def rel_import(f, g):
    d = os.path.dirname(f)
    rel = g[len(d) + 1:] if d else g
    return rel[:-3].replace('/', '.')


def tag(f, name):
    return ns_of(f).replace('.', '_') + '_' + name


def grammar_text(files, info, f, top_names):
    out = ['import %s' % rel_import(f, g) for g in info[f]['imports']]
    if f == 'main.tx':
        out.append('Model: things+=Thing;')
        out.append('Thing: %s;' % ' | '.join(top_names))
    for name, sub in info[f]['defs'].items():
        if sub and sub.startswith('='):
            # alias rule: the body is nothing but a reference to another rule (resolved from this file)
            out.append('%s: %s;' % (name, sub[1:]))
            continue
        body = "'%s' x=INT" % tag(f, name)
        if sub:
            body += " ('with' sub=%s)?" % sub
        q = info[f].get('qrefs', {}).get(name)
        if q:
            # link reference to a class named with its grammar-file qualifier
            body += " ('->' qr=[%s.%s|INT])?" % (ns_of(q[0]), q[1])
        out.append('%s: %s;' % (name, body))
    return '\n'.join(out) + '\n'


def emulate_cycle_defect(info):
    """Recorded finding: textX loads imports depth-first BEFORE it creates the rules of the importing file, so while
    a file of an import cycle is still being imported its namespace is empty. Returns (resolve_tx, unresolved):
    resolve_tx[(f, name)] = file textX binds the name to under that behaviour; unresolved = names that then fail."""
    finished = []
    visible_at_finish = {}

    def load(f, stack):
        for g in info[f]['imports']:
            if g not in visible_at_finish and g not in stack:
                load(g, stack + [g])
        visible_at_finish[f] = set(finished) | {f}
        finished.append(f)
    load('main.tx', ['main.tx'])
    res = {}
    unresolved = []
    for f in finished:
        names = set(x.lstrip('=') for x in info[f]['defs'].values() if x)
        if f == 'main.tx':
            names |= set(NAMES)
        for name in names:
            hit = None
            for c in [f] + info[f]['imports']:
                if c in visible_at_finish[f] and name in info[c]['defs']:
                    hit = c
                    break
            res[(f, name)] = hit
            if hit is None and (f != 'main.tx' or resolve(info, f, name)):
                unresolved.append(name)
        # class names qualified by a grammar file that is not completely loaded yet when f is finished
        for name, q in info[f].get('qrefs', {}).items():
            if not (info[f]['defs'].get(name) or '').startswith('=') and q[0] not in visible_at_finish[f]:
                unresolved.append('%s.%s' % (ns_of(q[0]), q[1]))
    return res, unresolved


def one(ctx, i, rep=None):
    from textx import metamodel_from_file, TextXError
    rep = rep or {'i': i}
    r = ctx.rng('t', i)
    files, info = gen_tree(r)
    # nested references: a name resolvable from that file
    for f in files:
        for name in list(info[f]['defs']):
            cands = [n for n in NAMES if n != name and resolve(info, f, n)]
            if cands and r.random() < 0.5:
                info[f]['defs'][name] = r.choice(cands)
    # qualified class names in link references: [g3.A] where g3.tx is a root-level file imported by the referencing file
    n_q = 0
    for f in files:
        info[f]['qrefs'] = {}
        for name in list(info[f]['defs']):
            cands = [(g, n) for g in info[f]['imports'] if '/' not in g for n in info[g]['defs']]
            if cands and r.random() < 0.3:
                info[f]['qrefs'][name] = r.choice(cands)
                n_q += 1
    # alias rules (X: Y;) whose target is an ordinary rule visible from the alias' own file
    n_alias = 0
    for f in files:
        for name in list(info[f]['defs']):
            if r.random() < 0.15:
                cands = [n for n in NAMES if n != name and resolve(info, f, n) and
                         not (info[resolve(info, f, n)]['defs'][n] or '').startswith('=')]
                if cands:
                    info[f]['defs'][name] = '=' + r.choice(cands)
                    n_alias += 1
    top = [n for n in NAMES if resolve(info, 'main.tx', n)]
    if not top:
        info['main.tx']['defs']['A'] = None
        top = ['A']
    reach = set()
    todo = ['main.tx']
    while todo:
        x = todo.pop()
        if x in reach:
            continue
        reach.add(x)
        todo.extend(info[x]['imports'])
    cyc = any(f in closure_of(info, g) for f in reach for g in info[f]['imports'])
    tmp = tempfile.mkdtemp(prefix='tvc25_')
    try:
        texts = {}
        for f in files:
            p = os.path.join(tmp, f)
            os.makedirs(os.path.dirname(p), exist_ok=True)
            texts[f] = grammar_text(files, info, f, top)
            with open(p, 'w') as fh:
                fh.write(texts[f])
        wit = {'files': texts}
        competing = sum(1 for n in NAMES if sum(1 for f in ['main.tx'] + info['main.tx']['imports'] if n in info[f]['defs']) >= 2)
        diamond = any(len([f for f in reach if g in info[f]['imports']]) >= 2 for g in reach)
        ctx.case((tuple(files), tuple(tuple(files.index(g) for g in info[f]['imports']) for f in files),
                  tuple(tuple(sorted(info[f]['defs'].items(), key=str)) for f in files)), competing > 0 or diamond or cyc,
                 wit if ctx.evaluations < 2 else None)
        ctx.count('grammar_trees')
        ctx.count('alias_rules', n_alias)
        ctx.count('qualified_link_references', sum(1 for f in reach for n in info[f]['qrefs'] if not (info[f]['defs'][n] or '').startswith('=')))
        if any((info[f]['defs'][n] or '').startswith('=') and resolve(info, f, info[f]['defs'][n][1:]) not in (f, None)
               and resolve(info, f, info[f]['defs'][n][1:]) not in ['main.tx'] + info['main.tx']['imports']
               for f in reach if f != 'main.tx' for n in info[f]['defs']):
            ctx.count('alias_to_rule_not_visible_from_root')
        ctx.count('names_with_competing_definitions', competing)
        if diamond:
            ctx.count('diamonds')
        if cyc:
            ctx.count('cyclic_trees')
        if any(os.path.dirname(f).count('/') >= 1 and info[f]['imports'] for f in reach):
            ctx.count('deep_imports')
        try:
            mm = metamodel_from_file(os.path.join(tmp, 'main.tx'))
        except TextXError as e:
            ctx.violation(classify_load_error(info, top, cyc, str(e)), 'every referenced rule is defined in the file itself or in one of its imports, '
                          'yet the metamodel fails: %s' % str(e)[:160], wit, rep)
            return
        except Exception as e:
            ctx.violation(None, 'grammar tree failed to load: %r' % e, wit, rep)
            return
        # ---- model text from the reference resolution ----
        def text_for(f, name, depth):
            df = resolve(info, f, name)
            sub = info[df]['defs'][name]
            if sub and sub.startswith('='):
                return text_for(df, sub[1:], depth)
            t = '%s %d' % (tag(df, name), depth)
            exp = [(ns_of(df) + '.' + name)]
            if sub and depth < 3:
                st, se = text_for(df, sub, depth + 1)
                t += ' with ' + st
                exp += se
            return t, exp
        model_text = ''
        expected = []
        for n in top:
            t, e = text_for('main.tx', n, 0)
            model_text += t + '\n'
            expected.append(e)
        wit = dict(wit, model=model_text)
        try:
            m = mm.model_from_str(model_text)
        except TextXError as e:
            key = None
            if cyc:
                res, _u = emulate_cycle_defect(info)
                differs = any(res.get((f, n)) != resolve(info, f, n) for (f, n) in res if resolve(info, f, n))
                key = 'import-cycle-back-edge' if differs else None
            ctx.violation(key, 'the model text built from the documented rule resolution is rejected: %s' % str(e)[:140], wit, rep)
            return
        except Exception as e:
            ctx.violation(None, 'loading a model with the metamodel raised %s: %s' % (type(e).__name__, str(e)[:120]), wit, rep)
            return
        for obj, exp in zip(m.things, expected):
            chain = []
            o = obj
            while o is not None and hasattr(type(o), '_tx_fqn'):
                chain.append(type(o)._tx_fqn)
                o = getattr(o, 'sub', None)
            ctx.count('objects_checked', len(chain))
            if chain != exp:
                ctx.violation(None, 'objects have classes %r, the import order gives %r' % (chain, exp), wit, rep)
                return
            o = obj
            while o is not None and hasattr(type(o), '_tx_fqn'):
                if mm[type(o)._tx_fqn] is not type(o):
                    ctx.violation(None, 'class %s of a parsed object is not the class the metamodel returns for that qualified name' % type(o)._tx_fqn, wit, rep)
                    return
                o = getattr(o, 'sub', None)
        # ---- API lookups ----
        for n in NAMES:
            df = resolve(info, 'main.tx', n)
            ctx.count('qualified_lookups')
            try:
                c = mm[n]
                got = c._tx_fqn
            except KeyError:
                got = None
            exp = (ns_of(df) + '.' + n) if df else None
            if got != exp:
                key = None
                if cyc:
                    res, _u = emulate_cycle_defect(info)
                    df2 = res.get(('main.tx', n))
                    if got == ((ns_of(df2) + '.' + n) if df2 else None):
                        key = 'import-cycle-back-edge'
                ctx.violation(key, 'mm[%r] is %r, the import order of the root file gives %r' % (n, got, exp), wit, rep)
                return
        for f in sorted(reach):
            for n in info[f]['defs']:
                q = ns_of(f) + '.' + n
                ctx.count('qualified_lookups')
                try:
                    c = mm[q]
                except KeyError:
                    ctx.violation(None, 'mm[%r] does not exist although %s defines %s' % (q, f, n), wit, rep)
                    return
                if c._tx_fqn != q or c.__name__ != n:
                    ctx.violation(None, 'mm[%r] reports qualified name %r' % (q, c._tx_fqn), wit, rep)
                    return
                if mm.namespaces[ns_of(f)][n] is not c:
                    ctx.violation(None, 'two class objects exist for %s' % q, wit, rep)
                    return
                qr = info[f]['qrefs'].get(n)
                if qr and not (info[f]['defs'][n] or '').startswith('='):
                    want = mm.namespaces[ns_of(qr[0])][qr[1]]
                    a = c._tx_attrs.get('qr')
                    if a is None or a.cls is not want:
                        ctx.violation(None, 'link reference [%s.%s] in %s.%s is typed %s' % (
                            ns_of(qr[0]), qr[1], ns_of(f), n, getattr(getattr(a, 'cls', None), '_tx_fqn', None)), wit, rep)
                        return
        # ---- attribute types: the class an attribute is typed with is the one its rule name resolves to ----
        for f in sorted(reach):
            for n, sub in info[f]['defs'].items():
                if not sub or sub.startswith('='):
                    continue
                c = mm.namespaces[ns_of(f)][n]
                a = c._tx_attrs.get('sub')
                df, nm = resolve(info, f, sub), sub
                # (an alias rule X: Y; is a class of its own: an attribute typed X is typed with that class)
                want = ns_of(df) + '.' + nm
                got = getattr(getattr(a, 'cls', None), '_tx_fqn', None)
                ctx.count('attribute_types_checked')
                if list(info[f]['defs']).index(n) < (list(info[f]['defs']).index(sub) if sub in info[f]['defs'] else -1):
                    ctx.count('attribute_typed_by_a_rule_defined_later_in_the_file')
                if got != want:
                    key = None
                    if cyc:
                        res, _u = emulate_cycle_defect(info)
                        if any(res.get(k) != resolve(info, *k) for k in res if resolve(info, *k)):
                            key = 'import-cycle-back-edge'
                    ctx.violation(key, 'attribute sub=%s of %s.%s is typed %s, the rule name resolves to %s' % (sub, ns_of(f), n, got, want), wit, rep)
                    return
        a = mm['Model']._tx_attrs['things']
        if a.cls is not mm.namespaces['main']['Thing']:
            ctx.violation(None, 'Model.things is typed %s' % getattr(a.cls, '_tx_fqn', a.cls), wit, rep)
            return
        if set(k for k in mm.namespaces if k != '__base__') != {ns_of(f) for f in reach}:
            ctx.violation(None, 'namespaces %r, imported files %r' % (sorted(k for k in mm.namespaces if k != '__base__'), sorted(ns_of(f) for f in reach)), wit, rep)
    finally:
        shutil.rmtree(tmp, ignore_errors=True)


def closure_of(info, f):
    seen = set()
    todo = [f]
    while todo:
        x = todo.pop()
        if x in seen:
            continue
        seen.add(x)
        todo.extend(info[x]['imports'])
    return seen


def classify_cycle(cyc):
    # a wrong binding (not a failure) in a cyclic tree: attributed to the recorded finding only by the caller's
    # emulation check below
    return None


def classify_load_error(info, top, cyc, msg):
    import re
    if not cyc:
        return None
    m = re.search(r'Unexisting rule "(\w+)"', msg) or re.search(r'Unknown class/rule "([\w.]+)"', msg)
    if not m:
        return None
    res, unresolved = emulate_cycle_defect(info)
    # only names that are really referenced count
    return 'import-cycle-back-edge' if m.group(1) in unresolved else None


def run(ctx):
    for i in ctx.indices(4000 if ctx.tier == 'quick' else 10 ** 7, 'random'):
        one(ctx, i)


def replay(ctx, rep):
    one(ctx, rep['i'], rep)

"""C14 - user classes are constructed once with exactly the grammar attributes."""
import os
import shutil
import tempfile

from tv.props import c13 as T

ID = 'C14'
LEVEL = 'exploration'
QUICK_S = 45
THOROUGH_S = 300
TECHNIQUE = ('runtime monitoring: __init__ log of generated user classes (logical clock shared with processor log), class '
             '__dict__ snapshots before the first and after every load (identity of attribute-access dunders, textX bookkeeping '
             'attributes, per-object storage size)')
RULE = ('tree models (generator of C13: nested blocks, leaves, references, one or two files via ImportURI) x user-class '
        'variants (plain, __slots__, frozen-style __setattr__, own __setattr__/__getattribute__/__delattr__, inherited constructor, inherited '
        'dunders) x 6 loads per metamodel, a third of them failing (syntax error, unknown reference, failing match / object '
        'processor, failing constructor, failure inside the imported file). Checked: one __init__ per object; kwargs = rule '
        'attributes (+parent iff contained); no unresolved reference among the values; every __init__ before every common / '
        'abstract processor call; after every load the class snapshot equals the pre-load snapshot and no per-object '
        'storage is left. distinct = (class variant, tree shape, outcome); non-trivial = failing load or two-file load')
REQUIRED = {'loads': 600, 'failed_loads': 100, 'init_calls_checked': 3000, 'snapshots_compared': 600, 'two_file_loads': 50,
            'nested_failures': 15, 'class_variants': 4, 'max_class_variants': 7, 'loads_aborted_by_base_exception': 50, 'metamodels_with_annotating_provider': 50, 'loads_yielding_a_plain_value': 50}

ATTRS = {'Block': {'name', 'first', 'items', 'alt', 'tag'}, 'Leaf': {'name', 'val'}, 'Ref': {'name', 'target'},
         'Model': {'imports', 'name', 'items'}}
VARIANTS = ['plain', 'slots', 'frozen', 'dunders', 'inherited', 'inherited_init', 'slots_root']


def make_classes(variant, rec):
    """rec(kind, obj, kwargs) is called from every __init__"""
    def body(kind):
        def init(self, **kw):
            rec(kind, self, kw)
            for k, v in kw.items():
                object.__setattr__(self, k, v)
        return init

    if variant == 'plain':
        Block = type('Block', (), {'__init__': body('Block')})
        Leaf = type('Leaf', (), {'__init__': body('Leaf')})
        Ref = type('Ref', (), {'__init__': body('Ref')})
        return [Block, Leaf, Ref]
    if variant == 'slots':
        Block = type('Block', (), {'__init__': body('Block'), '__slots__': ('parent', 'name', 'first', 'items', 'alt', 'tag')})
        Leaf = type('Leaf', (), {'__init__': body('Leaf'), '__slots__': ('parent', 'name', 'val')})
        return [Block, Leaf]
    if variant == 'frozen':
        def frozen_setattr(self, k, v):
            raise AttributeError('frozen')
        Leaf = type('Leaf', (), {'__init__': body('Leaf'), '__setattr__': frozen_setattr})
        Block = type('Block', (), {'__init__': body('Block')})
        return [Block, Leaf]
    if variant == 'dunders':
        def ga(self, k):
            return object.__getattribute__(self, k)

        def sa(self, k, v):
            object.__setattr__(self, k, v)

        def da(self, k):
            object.__delattr__(self, k)
        Block = type('Block', (), {'__init__': body('Block'), '__getattribute__': ga, '__setattr__': sa, '__delattr__': da})
        Ref = type('Ref', (), {'__init__': body('Ref'), '__setattr__': sa})
        return [Block, Ref]
    if variant == 'inherited':
        def sa(self, k, v):
            object.__setattr__(self, k, v)
        Base = type('Base', (), {'__setattr__': sa})
        Block = type('Block', (Base,), {'__init__': body('Block')})
        Leaf = type('Leaf', (Base,), {'__init__': body('Leaf')})
        return [Block, Leaf]
    if variant == 'slots_root':
        # a user class for the model object itself, without instance dictionary (textX's own bookkeeping attributes of a
        # model cannot be stored on it)
        Model = type('Model', (), {'__init__': body('Model'), '__slots__': ('imports', 'name', 'items', '__weakref__')})
        Leaf = type('Leaf', (), {'__init__': body('Leaf')})
        Block = type('Block', (), {'__init__': body('Block')})
        return [Model, Leaf, Block]
    if variant == 'inherited_init':
        # the user classes define no constructor of their own: they inherit it from a common base class / from each other
        def init(self, **kw):
            rec(type(self).__name__, self, kw)
            for k, v in kw.items():
                object.__setattr__(self, k, v)
        Base = type('Base', (), {'__init__': init})
        Block = type('Block', (Base,), {})
        Leaf = type('Leaf', (Base,), {'describe': lambda self: self.name})
        Ref = type('Ref', (Leaf,), {})
        return [Block, Leaf, Ref]
    raise ValueError(variant)


DUNDERS = ('__setattr__', '__getattribute__', '__delattr__', '__getattr__')


def snapshot(classes):
    out = {}
    for c in classes:
        d = c.__dict__
        out[c.__name__] = {
            'dunders': tuple((k, id(d[k]) if k in d else None) for k in DUNDERS),
            'tx_keys': tuple(sorted(k for k in d if k.startswith('_tx_real') or k == '_tx_instrumented')),
            'obj_attrs': len(d.get('_tx_obj_attrs', {})),
            'keys': tuple(sorted(k for k in d if not k.startswith('_tx_'))),
        }
    return out


class Boom(Exception):
    pass


class Abort(BaseException):
    """a load can also be aborted by something that is not an Exception (KeyboardInterrupt, SystemExit, pytest's skip)"""


def primitive_root(ctx, i, rep):
    """the top rule can yield a plain value (an abstract rule with base-type alternatives): such a model is an int / str,
    not a textX object; user classes must be left as they were after such a load too"""
    from textx import metamodel_from_str, TextXError
    r = ctx.rng('prim', i)

    class Foo:
        def __init__(self, parent=None, a=None, sub=None):
            self.parent, self.a, self.sub = parent, a, sub

    class Bar:
        def __init__(self, parent=None, b=None):
            self.parent, self.b = parent, b
    classes = [Foo, Bar]
    mm = metamodel_from_str("Top: INT | STRING | Foo;\nFoo: 'x' a=INT ('{' sub=Bar '}')?;\nBar: 'y' b=INT;\n", classes=classes)
    base = snapshot(classes)
    for k in range(4):
        text = r.choice(['5', '"s"', 'x 3', 'x 4 { y 2 }', '-7', 'x { y', '?'])
        try:
            m = mm.model_from_str(text)
            outcome = type(m).__name__
        except TextXError:
            outcome = 'error'
        ctx.count('loads')
        ctx.count('snapshots_compared')
        if outcome in ('int', 'str'):
            ctx.count('loads_yielding_a_plain_value')
        wit = {'grammar': 'Top: INT | STRING | Foo; ...', 'input': text, 'outcome': outcome}
        ctx.case(('primitive-root', text), True, wit if ctx.evaluations % 3000 == 11 else None)
        snap = snapshot(classes)
        if snap != base:
            for c in classes:
                if snap[c.__name__] != base[c.__name__]:
                    ctx.violation(None, 'after loading %r (result: %s) class %s is not as it was before loading: %r' % (
                        text, outcome, c.__name__, {kk: vv for kk, vv in snap[c.__name__].items() if vv != base[c.__name__][kk]}), wit, rep)
                    return


def one(ctx, i, rep=None):
    from textx import metamodel_from_str, TextXError
    if i % 6 == 5:
        return primitive_root(ctx, i, rep or {'i': i})
    from textx.model import ObjCrossRef
    import textx.scoping.providers as sp
    rep = rep or {'i': i}
    r = ctx.rng('m', i)
    variant = VARIANTS[(i // 2) % len(VARIANTS)]
    ctx.maxc('max_class_variants', (i // 2) % len(VARIANTS) + 1)
    log = []
    clock = [0]
    fail_cfg = {'init_at': None, 'match': False, 'objproc': None, 'base': False}

    def rec(kind, obj, kw):
        clock[0] += 1
        log.append(('init', kind, id(obj), dict(kw), clock[0]))
        if fail_cfg['init_at'] is not None:
            fail_cfg['init_at'] -= 1
            if fail_cfg['init_at'] < 0:
                fail_cfg['init_at'] = None
                raise (Abort if fail_cfg['base'] else Boom)('constructor failure')
    classes = make_classes(variant, rec)
    user_kinds = {c.__name__ for c in classes if c.__name__ in ATTRS}

    def proc(rule, is_match=False):
        def p(x):
            clock[0] += 1
            if is_match:
                if fail_cfg['match']:
                    fail_cfg['match'] = False
                    raise (Abort if fail_cfg['base'] else TextXError)('match processor failure')
                return None
            log.append(('proc', rule, id(x), None, clock[0]))
            if fail_cfg['objproc'] is not None:
                fail_cfg['objproc'] -= 1
                if fail_cfg['objproc'] < 0:
                    fail_cfg['objproc'] = None
                    raise (Abort if fail_cfg['base'] else Boom)('object processor failure')
            return None
        return p
    mm = metamodel_from_str(T.GRAMMAR, classes=classes)
    annotate = (i % 3 == 1)

    class Prov(sp.PlainNameImportURI):
        # a scope provider that leaves a note on the referencing object while the model is still being built: that
        # attribute is not an attribute of the rule and must not reach the constructor
        def __call__(self, obj, attr, obj_ref):
            if annotate:
                obj.resolved_by_harness = 'noted'
            return sp.PlainNameImportURI.__call__(self, obj, attr, obj_ref)
    mm.register_scope_providers({'*.*': Prov()})
    if annotate:
        ctx.count('metamodels_with_annotating_provider')
    if variant == 'slots_root':
        # a model object without instance dictionary cannot keep textX's model-level bookkeeping (_tx_parser ...), which
        # get_location - called for every object processor - reads: match processors only (construction and clean-up, the
        # subject of C14, do not depend on it)
        mm.register_obj_processors({'Val': proc('Val', True), 'Tag': proc('Tag', True)})
    else:
        mm.register_obj_processors({'Model': proc('Model'), 'Block': proc('Block'), 'Leaf': proc('Leaf'), 'Ref': proc('Ref'),
                                    'Item': proc('Item'), 'Val': proc('Val', True), 'Tag': proc('Tag', True)})
    classes = [c for c in classes if c.__name__ in ATTRS]
    base = snapshot(classes)
    ctx.count('class_variants', 0)
    tmp = tempfile.mkdtemp(prefix='tvc14_')
    try:
        for li in range(6):
            two_files = r.random() < 0.35
            roots = []
            for fi in range(2 if two_files else 1):
                names = []
                root = {'kind': 'Model', 'name': 'root%d' % fi, 'items': [], 'imports': []}
                for _ in range(r.randint(1, 3)):
                    root['items'].append(T.gen_tree(r, 1, names, r.choice([2, 3, 4]), 'l%dm%dn' % (li, fi)))
                roots.append(root)
            if two_files:
                roots[0]['imports'] = ['other%d.m' % li]
            for fi, rt in enumerate(roots):
                own = [n for n in T.all_nodes(rt) if n['kind'] != 'Model']
                pool = own if fi == 1 else [n for rt2 in roots for n in T.all_nodes(rt2) if n['kind'] != 'Model']
                for n in T.all_nodes(rt):
                    if n['kind'] == 'Ref':
                        n['target'] = r.choice(pool)['name']
            texts = [T.pr(rt) for rt in roots]
            failure = r.choice([None, None, None, None, 'syntax', 'unknown-ref', 'match-proc', 'obj-proc', 'init', 'nested-unknown',
                                'nested-syntax'])
            if failure in ('nested-unknown', 'nested-syntax') and not two_files:
                failure = 'unknown-ref'
            if failure == 'obj-proc' and variant == 'slots_root':
                failure = 'init'
            fail_cfg.update(init_at=None, match=False, objproc=None, base=r.random() < 0.3)
            nobj = sum(1 for rt in roots for n in T.all_nodes(rt) if n['kind'] in user_kinds)
            if failure == 'syntax':
                texts[0] = texts[0] + '\n}}} garbage'
            elif failure == 'unknown-ref':
                texts[0] = texts[0] + ' ref zz%d -> nowhere\n' % li
            elif failure == 'nested-unknown':
                texts[1] = texts[1] + ' ref zz%d -> nowhere\n' % li
                ctx.count('nested_failures')
            elif failure == 'nested-syntax':
                texts[1] = texts[1] + '\n}} garbage'
                ctx.count('nested_failures')
            elif failure == 'match-proc':
                if any(n['kind'] == 'Leaf' and n['val'] is not None or n['kind'] == 'Block' and n['tag'] for rt in roots for n in T.all_nodes(rt)):
                    fail_cfg['match'] = True
                else:
                    failure = None
            elif failure == 'obj-proc':
                fail_cfg['objproc'] = r.randint(0, 3)
            elif failure == 'init':
                if nobj:
                    fail_cfg['init_at'] = r.randint(0, nobj - 1)
                else:
                    failure = None
            del log[:]
            fn = os.path.join(tmp, 'main%d.m' % li)
            with open(fn, 'w') as f:
                f.write(texts[0])
            if two_files:
                with open(os.path.join(tmp, 'other%d.m' % li), 'w') as f:
                    f.write(texts[1])
                ctx.count('two_file_loads')
            outcome = 'ok'
            try:
                if two_files or r.random() < 0.5:
                    m = mm.model_from_file(fn)
                else:
                    m = mm.model_from_str(texts[0])
            except TextXError as e:
                outcome = 'textx-error'
            except Boom:
                outcome = 'boom'
            except Abort:
                outcome = 'abort (BaseException)'
                ctx.count('loads_aborted_by_base_exception')
            except TypeError as e:
                outcome = 'typeerror' if 'constructor failure' in str(e) or failure == 'init' else 'unexpected TypeError: %s' % e
            except (AttributeError, KeyError, IndexError, AssertionError) as e:
                outcome = 'internal error %s: %s' % (type(e).__name__, str(e)[:80])
            ctx.count('loads')
            wit = {'files': texts, 'class_variant': variant, 'injected_failure': failure, 'outcome': outcome, 'load_index': li}
            ctx.case((variant, tuple(n['kind'] for rt in roots for n in T.all_nodes(rt)), failure), failure is not None or two_files,
                     wit if ctx.evaluations < 2 else None)
            if outcome.startswith('internal error'):
                ctx.violation(None, 'the load (injected failure: %s, user classes %s) ended with an %s instead of the failure that was '
                              'raised' % (failure, variant, outcome), wit, rep)
                return
            if outcome != 'ok':
                ctx.count('failed_loads')
            if (failure is None) != (outcome == 'ok'):
                if failure is None:
                    ctx.violation(None, 'valid model failed to load (%s) with user classes %s' % (outcome, variant), wit, rep)
                    return
                # an injected failure that did not fire is a harness matter (e.g. processor never reached)
                ctx.count('injected_failure_did_not_fire')
            # ---- snapshots -------------------------------------------------
            snap = snapshot(classes)
            ctx.count('snapshots_compared')
            if snap != base:
                for cn in snap:
                    if snap[cn] != base[cn]:
                        what = []
                        if snap[cn]['dunders'] != base[cn]['dunders']:
                            what.append('attribute-access methods differ from the originals')
                        if snap[cn]['tx_keys'] != base[cn]['tx_keys']:
                            what.append('textX bookkeeping left on the class: %s' % (snap[cn]['tx_keys'],))
                        if snap[cn]['obj_attrs'] != base[cn]['obj_attrs']:
                            what.append('%d per-object attribute stores left' % snap[cn]['obj_attrs'])
                        if snap[cn]['keys'] != base[cn]['keys']:
                            what.append('class attributes changed')
                        ctx.violation(classify(what, outcome), 'after a %s load (injected: %s) class %s: %s' % (
                            'successful' if outcome == 'ok' else 'failed', failure, cn, '; '.join(what)), wit, rep)
                        return
            # ---- init log (successful loads) ---------------------------------
            if outcome == 'ok':
                inits = [e for e in log if e[0] == 'init']
                procs = [e for e in log if e[0] == 'proc']
                ids = [e[2] for e in inits]
                ctx.count('init_calls_checked', len(inits))
                if len(set(ids)) != len(ids):
                    ctx.violation(None, 'an object was initialised twice', wit, rep)
                    return
                if len(inits) != nobj:
                    ctx.violation(None, '%d user objects in the model, __init__ ran %d times' % (nobj, len(inits)), wit, rep)
                    return
                for _, kind, oid, kw, t in inits:
                    keys = set(kw)
                    allowed = ATTRS[kind] | {'parent'}
                    if not (ATTRS[kind] <= keys and keys <= allowed and ('parent' in keys) == (kind != 'Model')):
                        ctx.violation(None, '%s.__init__ received %s, the rule attributes are %s (+parent)' % (
                            kind, sorted(keys), sorted(ATTRS[kind])), wit, rep)
                        return
                    for k, v in kw.items():
                        vs = v if isinstance(v, list) else [v]
                        if any(isinstance(x, ObjCrossRef) for x in vs) or (kind == 'Ref' and k == 'target' and v is None):
                            ctx.violation(None, '%s.__init__ received an unresolved reference in %s' % (kind, k), wit, rep)
                            return
                if inits and procs and max(e[4] for e in inits) > min(e[4] for e in procs):
                    ctx.violation(None, 'an object processor ran before all user objects were initialised', wit, rep)
                    return
    finally:
        shutil.rmtree(tmp, ignore_errors=True)


def classify(what, outcome):
    return None


def run(ctx):
    for i in ctx.indices(2400 if ctx.tier == "quick" else 10 ** 7, "random"):
        one(ctx, i)
    ctx.count('class_variants', len(VARIANTS))


def replay(ctx, rep):
    one(ctx, rep['i'], rep)

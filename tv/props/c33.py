"""C33 - errors raised by processors carry the location of the processed text."""
import os
import shutil
import tempfile

from tv.props import c13 as T

ID = 'C33'
LEVEL = 'exploration'
QUICK_S = 45
THOROUGH_S = 300
TECHNIQUE = ('runtime monitoring: a processor is made to fail on one chosen object / match whose span is known from the harness '
             'layout; filename, line, col, nchar of the TextXError that reaches the caller are compared with that ground truth')
RULE = ('tree models (generator of C13) printed with random indentation, blank lines and comments, with the span of every '
        'object and matched value recorded by the printer; one or two files (ImportURI), loaded from strings and files. One '
        'failing processor per load on a random object (Block/Leaf/Ref, abstract rule Item) or match (Val/Tag, and the parts Num of a composite match rule Range: Num .. Num laid out over several lines), raising (a) '
        'TextXError without location, (b) TextXError with its own full or partial location, (c) ValueError through '
        'textxerror_wrap. Oracle: filename of the file holding the text (None for strings), line/col of the start of the '
        'object / match, nchar = object length for object processors; processor-supplied fields kept (variants: filename only, line+col, line only, nchar only, all four) and the missing ones filled from the processed text. distinct = (tree '
        'shape, target kind, raise variant, load kind); non-trivial = target not on the first line or in the imported file')
REQUIRED = {'errors_checked': 500, 'object_processor_errors': 150, 'match_processor_errors': 100, 'own_location_kept': 50,
            'wrapped_foreign_exceptions': 80, 'imported_file_errors': 40, 'string_loads': 50, 'nchar_checked': 100, 'errors_of_a_subclass': 50, 'loads_with_user_classes': 100, 'loads_with_read_only_attribute_user_classes': 50,
            'partial_location_completed': 60, 'inner_match_of_composite_match_rule': 50,
            'inner_match_after_newline_inside_composite': 15, 'loads_with_use_regexp_group': 100}


def pr(n, spans, ind, r, out):
    """appends text to out (list of str), records spans[name] = (start, end) and spans['val:'+name] for matches"""
    def cur():
        return sum(len(x) for x in out)

    def gap():
        out.append(r.choice([' ', '  ', '\n' + ' ' * ind, '\n\n' + ' ' * ind, ' // c\n' + ' ' * ind, '\t']))
    if n['kind'] == 'Model':
        for imp in n.get('imports', []):
            out.append('import "%s"\n' % imp)
        out.append(r.choice(['', '\n', '  ', '// head\n']))
        spans[n['name']] = [cur(), None]
        out.append('model')
        gap()
        out.append(n['name'])
        for c in n['items']:
            gap()
            pr(c, spans, ind + 1, r, out)
        spans[n['name']][1] = cur()
        out.append('\n')
        return
    start = cur()
    if n['kind'] == 'Leaf':
        out.append('leaf')
        gap()
        out.append(n['name'])
        if n['val'] is not None:
            gap()
            out.append(':')
            gap()
            vs = cur()
            if isinstance(n['val'], tuple):
                # a match rule composed of match rules: Range: Num '..' Num, laid out over several lines
                lo, hi = n['val']
                ns = cur()
                out.append(str(lo))
                spans['num:%s' % lo] = (ns, cur())
                gap()
                out.append('..')
                gap()
                ns = cur()
                out.append(str(hi))
                spans['num:%s' % hi] = (ns, cur())
                spans['range:' + n['name']] = (vs, cur())
            else:
                out.append(str(n['val']))
                spans['val:' + n['name']] = (vs, cur())
    elif n['kind'] == 'Ref':
        out.append('ref')
        gap()
        out.append(n['name'])
        gap()
        out.append('->')
        gap()
        out.append(n['target'])
    else:
        out.append('block')
        gap()
        out.append(n['name'])
        gap()
        out.append('{')
        if n['first'] is not None:
            gap()
            out.append('first')
            gap()
            pr(n['first'], spans, ind + 1, r, out)
        for c in n['items']:
            gap()
            pr(c, spans, ind + 1, r, out)
        if n['alt'] is not None:
            gap()
            out.append('else')
            gap()
            pr(n['alt'], spans, ind + 1, r, out)
        if n['tag']:
            gap()
            out.append('tag')
            gap()
            ts = cur()
            out.append(n['tag'])
            spans['tag:' + n['name']] = (ts, cur())
        gap()
        out.append('}')
    spans[n['name']] = (start, cur())


def linecol(text, off):
    return text.count('\n', 0, off) + 1, off - (text.rfind('\n', 0, off) + 1) + 1


def one(ctx, i, rep=None):
    from textx import metamodel_from_str, TextXError
    from textx.model import textxerror_wrap
    import textx.scoping.providers as sp
    rep = rep or {'i': i}
    r = ctx.rng('m', i)
    two_files = (i % 4 == 1)
    as_string = (i % 4 == 3)
    roots = []
    for fi in range(2 if two_files else 1):
        names = []
        root = {'kind': 'Model', 'name': 'root%d' % fi, 'items': [], 'imports': []}
        for _ in range(r.randint(1, 4)):
            root['items'].append(T.gen_tree(r, 1, names, r.choice([2, 3, 4]), 'm%dn' % fi))
        root['items'].append({'kind': 'Leaf', 'name': 'm%dv' % fi, 'val': 7})
        roots.append(root)
    if two_files:
        roots[0]['imports'] = ['other.m']
    for fi, rt in enumerate(roots):
        own = [n for n in T.all_nodes(rt) if n['kind'] != 'Model']
        for n in T.all_nodes(rt):
            if n['kind'] == 'Ref':
                n['target'] = r.choice(own)['name']
    # unique matched values, so that a match processor can recognise its target
    uniq = [0]
    for rt in roots:
        for n in T.all_nodes(rt):
            if n['kind'] == 'Leaf' and n['val'] is not None:
                uniq[0] += 1
                n['val'] = (100 + uniq[0]) if uniq[0] % 2 else '"s%d"' % uniq[0]
                if uniq[0] % 3 == 0:
                    n['val'] = (1000 + 2 * uniq[0], 1001 + 2 * uniq[0])
            if n['kind'] == 'Block' and n.get('tag'):
                uniq[0] += 1
                n['tag'] = '#u%d' % uniq[0]
    texts, spans = [], []
    for rt in roots:
        out, sp_ = [], {}
        pr(rt, sp_, 0, r, out)
        texts.append(''.join(out))
        spans.append(sp_)
    # ---- choose the target ----
    fi = r.randrange(len(roots))
    cands = [(k, v) for k, v in spans[fi].items() if not k.startswith('root')]
    key, span = r.choice(cands)
    is_match = key.startswith(('val:', 'tag:', 'num:', 'range:'))
    variant = r.choice(['plain', 'plain', 'own_full', 'own_partial', 'own_linecol', 'own_line', 'own_nchar', 'wrapped', 'wrapped'])
    node_kind = None
    if not is_match:
        node_kind = next(n['kind'] for n in T.all_nodes(roots[fi]) if n['name'] == key)
    via_abstract = (not is_match) and r.random() < 0.3

    # the error class a processor raises: the base class or one of its public subclasses
    from textx import TextXSemanticError, TextXSyntaxError
    Err = r.choice([TextXError, TextXError, TextXSemanticError, TextXSyntaxError])
    if Err is not TextXError:
        ctx.count('errors_of_a_subclass')

    def fail(x):
        if variant == 'plain':
            raise Err('processor says no')
        if variant == 'own_full':
            raise Err('processor says no', line=99, col=98, nchar=7, filename='own.file')
        if variant == 'own_partial':
            raise Err('processor says no', filename='own.file')
        if variant == 'own_linecol':
            raise Err('processor says no', line=99, col=98)
        if variant == 'own_line':
            raise Err('processor says no', line=99)
        if variant == 'own_nchar':
            raise Err('processor says no', nchar=7)
        raise ValueError('foreign failure')

    def objproc(o):
        if getattr(o, 'name', None) == key:
            fail(o)

    def valproc(v):
        if is_match and key.startswith('val:') and str(v) == texts[fi][span[0]:span[1]].strip('"'):
            fail(v)

    def numproc(v):
        if key.startswith('num:') and str(v) == key[4:]:
            fail(v)
        return v

    def rangeproc(v):
        if key.startswith('range:') and str(v) == ''.join(texts[fi][span[0]:span[1]].split()).replace('//c', ''):
            fail(v)
        return v

    urg = (i % 5 == 2)      # use_regexp_group: the Tag rule is a regex with one group, its value is that group

    def tagproc(v):
        if is_match and key.startswith('tag:') and v == texts[fi][span[0] + (1 if urg else 0):span[1]]:
            fail(v)
        return v
    wrap = textxerror_wrap if variant == 'wrapped' else (lambda f: f)
    gtext = T.GRAMMAR.replace('Val: INT | STRING;', "Val: Range | INT | STRING;\nRange: Num '..' Num;\nNum: /\\d+/;") \
        + 'Comment: /\\/\\/.*$/;\n'
    if urg:
        assert 'Tag: /#\\w+/;' in gtext
        gtext = gtext.replace('Tag: /#\\w+/;', 'Tag: /#(\\w+)/;')
        ctx.count('loads_with_use_regexp_group')
    classes = []
    ucv = i % 6
    if ucv in (1, 4):
        # user classes for the common rules; variant 4 keeps `name` under another name and exposes it through a read-only
        # property (direct assignment of that grammar attribute is refused, the constructor gets it)
        def mk(cname, readonly):
            def __init__(self, **kw):
                if readonly:
                    object.__setattr__(self, '_n', kw.pop('name', None))
                for k_, v_ in kw.items():
                    object.__setattr__(self, k_, v_)
            d = {'__init__': __init__}
            if readonly:
                d['name'] = property(lambda self: self._n)
            return type(cname, (), d)
        classes = [mk(c, ucv == 4) for c in ('Block', 'Leaf', 'Ref')]
        ctx.count('loads_with_user_classes')
        if ucv == 4:
            ctx.count('loads_with_read_only_attribute_user_classes')
    mm = metamodel_from_str(gtext, use_regexp_group=urg, classes=classes)
    mm.register_scope_providers({'*.*': sp.PlainNameImportURI()})
    procs = {'Val': wrap(valproc), 'Tag': wrap(tagproc), 'Num': wrap(numproc), 'Range': wrap(rangeproc)}
    if via_abstract:
        procs['Item'] = wrap(objproc)
    else:
        for k in ('Block', 'Leaf', 'Ref'):
            procs[k] = wrap(objproc)
    mm.register_obj_processors(procs)
    tmp = tempfile.mkdtemp(prefix='tvc33_')
    try:
        paths = [os.path.join(tmp, 'main.m'), os.path.join(tmp, 'other.m')]
        for p, t in zip(paths, texts):
            with open(p, 'w') as f:
                f.write(t)
        err = None
        try:
            if as_string:
                mm.model_from_str(texts[0])
            else:
                mm.model_from_file(paths[0])
        except TextXError as e:
            err = e
        except ValueError as e:
            err = e
    finally:
        shutil.rmtree(tmp, ignore_errors=True)
    wit = {'files': texts, 'target': key, 'span': list(span), 'in_file': fi, 'variant': variant, 'via_abstract_rule': via_abstract,
           'loaded_from': 'string' if as_string else 'file'}
    el, ec = linecol(texts[fi], span[0])
    ctx.case((tuple(n['kind'] for rt in roots for n in T.all_nodes(rt)), 'match' if is_match else node_kind, variant, as_string, two_files),
             el > 1 or fi == 1, wit if ctx.evaluations < 2 else None)
    if err is None:
        if via_abstract and not is_match:
            # the object may sit in a slot that is not typed by the abstract rule (Block.alt): no call, no error
            ctx.count('abstract_processor_not_applicable')
            return
        ctx.violation(None, 'the failing processor for %s did not make the load fail' % key, wit, rep)
        return
    if 'processor says no' not in str(err) and 'foreign failure' not in str(err):
        raise RuntimeError('harness: the load failed for another reason: %s' % err)
    if not isinstance(err, TextXError):
        ctx.violation(None, 'a %s escaped instead of a located TextXError (variant %s)' % (type(err).__name__, variant), wit, rep)
        return
    ctx.count('errors_checked')
    ctx.count('match_processor_errors' if is_match else 'object_processor_errors')
    if fi == 1:
        ctx.count('imported_file_errors')
    if as_string:
        ctx.count('string_loads')
    if key.startswith('num:'):
        ctx.count('inner_match_of_composite_match_rule')
        if '\n' in texts[fi][spans[fi][[k for k in spans[fi] if k.startswith('range:') and spans[fi][k][0] <= span[0] < spans[fi][k][1]][0]][0]:span[0]]:
            ctx.count('inner_match_after_newline_inside_composite')
    exp_file = None if as_string else paths[fi]
    exp = {'filename': exp_file, 'line': el, 'col': ec}
    if not is_match:
        exp['nchar'] = span[1] - span[0]
    if variant == 'own_full':
        exp = {'filename': 'own.file', 'line': 99, 'col': 98, 'nchar': 7}
        ctx.count('own_location_kept')
    elif variant == 'own_partial':
        exp['filename'] = 'own.file'
        ctx.count('own_location_kept')
    elif variant in ('own_linecol', 'own_line', 'own_nchar'):
        # the supplied fields are kept, the others describe the processed text
        exp.update({'own_linecol': {'line': 99, 'col': 98}, 'own_line': {'line': 99}, 'own_nchar': {'nchar': 7}}[variant])
        ctx.count('own_location_kept')
        ctx.count('partial_location_completed')
    elif variant == 'wrapped':
        ctx.count('wrapped_foreign_exceptions')
    got = {k: getattr(err, k, None) for k in exp}
    if 'nchar' in exp:
        ctx.count('nchar_checked')
    if got != exp:
        bad = sorted(k for k in exp if got[k] != exp[k])
        ctx.violation(classify(bad, is_match, variant), '%s processor error (%s) for %s: %s reported as %s, the processed text is at %s' % (
            'match' if is_match else 'object', variant, key, bad, {k: got[k] for k in bad}, {k: exp[k] for k in bad}), wit, rep)


def classify(bad, is_match, variant):
    return None


def run(ctx):
    for i in ctx.indices(6000 if ctx.tier == 'quick' else 10 ** 7, 'random'):
        one(ctx, i)


def replay(ctx, rep):
    one(ctx, rep['i'], rep)

"""C20 - ignore_case makes grammar literals case-insensitive."""
import itertools

from tv import pegdiff as P
from tv import refpeg as RP

ID = 'C20'
LEVEL = 'exploration'
QUICK_S = 60
THOROUGH_S = 900
TECHNIQUE = ('runtime monitoring: metamorphic case flipping on the spans that grammar literals matched (spans taken from a '
             'reference derivation and confirmed by the Arpeggio match hook), plus differential against the reference '
             'interpreter with case-insensitive literals')
RULE = ('random grammars with keyword literals, symbol literals containing letters (then1:, and-then2, #inc3, 4d, a5.b, '
        'unicode), regex literals (assigned and unassigned, case-sensitive classes), word separators; ignore_case=True, '
        'autokwd on/off, skipws on/off. Per accepted input: all 2^k case variations of the letters inside literal-matched '
        'spans for k<=6 (quick) / 8, random subsets otherwise. Oracle: acceptance unchanged and model structure unchanged; '
        'regex-assigned and ID values are the text as written; string-literal values keep the grammar spelling. distinct = '
        '(grammar skeleton, token kinds, flipped mask); non-trivial = at least one flipped letter lies in a symbol-with-letters '
        'literal, a regex literal or a separator')
REQUIRED = {'case_sensitive_twin_built_first': 50, 'variants_checked': 2000, 'inputs': 200, 'flips_in_symbol_literals': 50, 'flips_in_regex_literals': 50,
            'autokwd_on': 50, 'autokwd_off': 50, 'exhaustive_masks': 20}


def letter_positions(s, toks):
    """positions of cased letters inside spans matched by grammar literals (string or regex), with the token"""
    out = []
    for t in toks:
        if t.kind not in ('lit', 're') or t.in_comment:
            continue
        for p in range(t.start, t.end):
            ch = s[p]
            if ch.swapcase() != ch and len(ch.swapcase()) == 1 and ch.swapcase().swapcase() == ch:
                out.append((p, t))
    return out


def one(ctx, i, rep=None):
    with ctx.time_limit(30):
        _one(ctx, i, rep)


def _one(ctx, i, rep=None):
    from textx import metamodel_from_str, TextXError
    from tv.ggen import G
    rep = rep or {'i': i}
    r = ctx.rng('g', i)
    gen_ = G(r, 0.0, pskip=0.15, pws=0.0, pcomment=0.2)   # no ws= modifiers: keeps Arpeggio's eolterm/ws restore finding (C01) out
    gen_.lit_style = 'rich'
    if i % 4 == 1:
        gen_.preuse = 0.2
    gen_.psupref = 0.12
    g = gen_.grammar()
    variant = ctx.rng('litspelling', i).choice([0, 0, 0, 0, 1, 2, 3])
    text = P.pr_variant(g, variant)
    if variant:
        ctx.count('grammars_with_escaped_literal_spelling')
    cfg = dict(skipws=r.random() < 0.9, auto_init_attributes=True, use_regexp_group=False, ignore_case=True,
               autokwd=r.random() < 0.5)
    try:
        twin = None
        if i % 2:
            # the same grammar compiled case-sensitively first, alive in the same process
            twin = P.make_mm(text, **dict(cfg, ignore_case=False))
            ctx.count('case_sensitive_twin_built_first')
        mm = P.make_mm(text, **cfg)
    except TextXError as e:
        ctx.violation(None, 'generated grammar rejected: %s' % str(e)[:100], {'grammar': text}, rep)
        return
    skel = P.skeleton(g)
    for s in P.make_inputs(g, r, cfg, 6 if ctx.tier == 'quick' else 10, mutate_every=0):
        ref, tree = P.ref_outcome(g, s, cfg)
        if ref[0] != 'ok':
            continue
        got = P.textx_outcome(mm, s)
        if got not in P.ref_variants_ignore_case(g, tree, cfg):
            from tv.props.c01 import classify_div
            ctx.violation(classify_div(g, s, cfg, ref, got, set()), 'reference %s / textX %s on %r (ignore_case, autokwd=%s)' % (ref[0], got[0], s[:50], cfg['autokwd']),
                          {'grammar': text, 'input': s, 'config': cfg, 'reference': repr(ref)[:600], 'textx': repr(got)[:600]}, rep)
            continue
        ctx.count('inputs')
        ctx.count('autokwd_on' if cfg['autokwd'] else 'autokwd_off')
        toks = RP.all_tokens(tree)
        # suppressed literal / regex matches leave no token in the tree: take them from the terminal log of the derivation
        covered = {(t.start, t.end) for t in toks}
        for (a_, b_, kind_, text_) in getattr(tree, 'terminals', []):
            if kind_ in ('lit', 're') and (a_, b_) not in covered:
                pt = RP.Tok(kind_ if kind_ == 're' else 'lit', text_, a_, b_)
                pt.in_comment = False
                toks.append(pt)
                ctx.count('suppressed_terminals_included')
        toks.sort(key=lambda t_: t_.start)
        letters = letter_positions(s, toks)
        if not letters:
            continue
        kmax = 6 if ctx.tier == 'quick' else 8
        if len(letters) <= kmax:
            masks = list(itertools.product([0, 1], repeat=len(letters)))[1:]
            ctx.count('exhaustive_masks')
        else:
            masks = []
            for _ in range(2 ** kmax // 2):
                p = r.choice([0.1, 0.5, 0.9])
                masks.append(tuple(1 if r.random() < p else 0 for _ in letters))
            masks.append(tuple(1 for _ in letters))
        for mask in masks:
            chars = list(s)
            sym = rx = False
            for (p, t), bit in zip(letters, mask):
                if bit:
                    chars[p] = chars[p].swapcase()
                    if t.kind == 're':
                        rx = True
                    elif not RP.is_keyword_like(t.text):
                        sym = True
            s2 = ''.join(chars)
            if s2 == s:
                continue
            if sym:
                ctx.count('flips_in_symbol_literals')
            if rx:
                ctx.count('flips_in_regex_literals')
            ref2, tree2 = P.ref_outcome(g, s2, cfg)
            got2 = P.textx_outcome(mm, s2)
            ok_variants = P.ref_variants_ignore_case(g, tree2, cfg) if tree2 is not None else [ref2]
            ctx.count('variants_checked')
            ctx.case((skel, P.token_kinds(s), mask), sym or rx,
                     {'grammar': text, 'input': s, 'variant': s2, 'autokwd': cfg['autokwd']} if ctx.evaluations < 3 else None)
            g2 = ('reject',) if got2[0] == 'reject' else got2
            wit = {'grammar': text, 'input': s, 'variant': s2, 'config': cfg, 'original_model': repr(got)[:500],
                   'variant_outcome': repr(got2)[:500], 'reference_on_variant': repr(ref2)[:500]}
            if ref2[0] == 'ok' and structure(ref2[1]) == structure(ref[1]):
                # the documented relation: same acceptance, same structure, values as written
                if g2[0] != 'ok':
                    ctx.violation(None, 'case variant %r of accepted input %r is %s' % (s2[:60], s[:60], got2[0]), wit, rep)
                    break
                if g2 not in ok_variants:
                    ctx.violation(None, 'case variant %r of %r gives a different model / values' % (s2[:60], s[:60]), wit, rep)
                    break
            elif g2 not in ok_variants:
                ctx.violation(None, 'case variant %r: textX %s, case-insensitive grammar semantics give %s' % (s2[:60], got2[0], ref2[0]),
                              wit, rep)
                break


def structure(d):
    """dump with primitive values erased (class names, attribute names, list lengths remain)"""
    if isinstance(d, tuple) and len(d) == 2 and d[0] == 'list':
        return ('list', tuple(structure(x) for x in d[1]))
    if isinstance(d, tuple) and len(d) == 2 and isinstance(d[1], tuple) and all(isinstance(i, tuple) and len(i) == 2 and isinstance(i[0], str) for i in d[1]) and d[0] not in ('str', 'int', 'float', 'bool', 'NoneType'):
        return (d[0], tuple((k, structure(v)) for k, v in d[1]))
    if isinstance(d, tuple) and d:
        return (d[0],)
    return d


def run(ctx):
    for i in ctx.indices(500 if ctx.tier == 'quick' else 15000, 'random'):
        one(ctx, i)


def replay(ctx, rep):
    one(ctx, rep['i'], rep)

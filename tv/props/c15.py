"""C15 - a failed load leaves nothing behind (fault injection + garbage-collection reachability)."""
import gc
import os
import shutil
import tempfile
import weakref

from tv import pegdiff as P
from tv.props import c13 as T
from tv.props import c14 as U

ID = 'C15'
LEVEL = 'fault_enumeration'
QUICK_S = 60
THOROUGH_S = 300
TECHNIQUE = ('runtime monitoring with fault injection: every failure phase x k-th call enumerated per model; weak references '
             'to every object allocated by the load (hook on the metamodel object initialiser) must be dead after the exception '
             'is dropped and gc ran; class snapshots; next-load differential against a fresh metamodel')
RULE = ('for each generated model (tree generator of C13; one or two files; user classes on/off; global repository on/off) a '
        'clean load counts the calls of scope provider, match processor, object processor, model processor and user '
        'constructor; then one load per (phase, k) with an exception (TextXError or ValueError) raised at the k-th call of '
        'that phase (k capped at 5 per phase in quick), plus syntax error, unknown reference and an unresolvable postponed '
        'reference. After each failed load: every allocated object is garbage (else the referrer chain is the witness), user '
        'classes are as before, and the next load of a valid model equals the load by a fresh metamodel. distinct = (model '
        'shape, phase, k, exception kind, variant); non-trivial = the failure hit after at least one object was allocated')
REQUIRED = {'failed_loads': 400, 'objects_tracked': 3000, 'phase_provider': 20, 'phase_match_proc': 20, 'phase_obj_proc': 20,
            'phase_model_proc': 10, 'phase_init': 10, 'phase_syntax': 10, 'phase_unknown_ref': 10, 'phase_postponed': 10,
            'two_file_faults': 40, 'next_load_compared': 100,
            'globalrepo_provider_string_model_faults': 100, 'aborts_by_base_exception': 100}
EXHAUSTIVE_CLAIM = False

_tracked = []
_hook = [False]


def install_alloc_hook():
    if _hook[0]:
        return
    from textx.metamodel import TextXMetaModel
    orig = TextXMetaModel._init_obj_attrs

    def _init_obj_attrs(self, obj):
        try:
            _tracked.append(weakref.ref(obj))
        except TypeError:
            _tracked.append(('noweak', type(obj).__name__))
        return orig(self, obj)
    TextXMetaModel._init_obj_attrs = _init_obj_attrs
    _hook[0] = True


class BoomBase(BaseException):
    """aborts that are not Exceptions (KeyboardInterrupt, SystemExit, ...)"""


class Boom(ValueError):
    pass


def referrer_chain(obj, depth=4):
    out = []
    cur = obj
    seen = {id(obj)}
    for _ in range(depth):
        refs = [x for x in gc.get_referrers(cur) if id(x) not in seen and not isinstance(x, type(lambda: 0).__class__) and
                type(x).__name__ not in ('frame', 'list_iterator', 'ReferenceType')]
        refs = [x for x in refs if x is not _tracked and not (isinstance(x, list) and x and x[0] is cur and len(x) < 3)]
        if not refs:
            break
        x = refs[0]
        seen.add(id(x))
        d = type(x).__name__
        if isinstance(x, dict):
            keys = [k for k, v in x.items() if v is cur]
            d = 'dict[%r]' % (keys[:1],)
            owners = [o for o in gc.get_referrers(x) if hasattr(o, '__dict__') and getattr(o, '__dict__', None) is x]
            if owners:
                d += ' of %s' % (getattr(owners[0], '__name__', None) or type(owners[0]).__name__)
        out.append(d)
        cur = x
    return out


def build(r, li, two_files):
    roots = []
    for fi in range(2 if two_files else 1):
        names = []
        root = {'kind': 'Model', 'name': 'root%d' % fi, 'items': [], 'imports': []}
        for _ in range(r.randint(1, 3)):
            root['items'].append(T.gen_tree(r, 1, names, r.choice([2, 3]), 'l%dm%dn' % (li, fi)))
        # make sure every phase has something to hit
        root['items'].append({'kind': 'Leaf', 'name': 'l%dm%dv' % (li, fi), 'val': 7})
        root['items'].append({'kind': 'Ref', 'name': 'l%dm%dr' % (li, fi), 'target': 'l%dm%dv' % (li, fi)})
        roots.append(root)
    if two_files:
        roots[0]['imports'] = ['other.m']
    for fi, rt in enumerate(roots):
        own = [n for n in T.all_nodes(rt) if n['kind'] != 'Model']
        pool = own if fi == 1 else [n for rt2 in roots for n in T.all_nodes(rt2) if n['kind'] != 'Model']
        for n in T.all_nodes(rt):
            if n['kind'] == 'Ref' and n['target'] is None:
                n['target'] = r.choice(pool)['name']
    return roots


def one(ctx, i, rep=None):
    from textx import metamodel_from_str, TextXError
    from textx.scoping import Postponed
    import textx.scoping.providers as sp
    install_alloc_hook()
    rep = rep or {'i': i}
    r = ctx.rng('m', i)
    two_files = (i % 3 == 1)
    use_classes = (i % 2 == 1)
    global_repo = (i % 5 == 4)
    # GlobalRepo-type provider (file pattern) with the main model given as a string: the string model is registered in the
    # shared repository under an invented name
    globalrepo_provider = (i % 7 == 3)
    if globalrepo_provider:
        global_repo = True
    tmp = tempfile.mkdtemp(prefix='tvc15_')
    roots = build(r, 0, two_files)
    texts = [T.pr(rt) for rt in roots]
    counts = {'provider': 0, 'match_proc': 0, 'obj_proc': 0, 'model_proc': 0, 'init': 0}
    fault = {'phase': None, 'k': 0, 'exc': 'textx'}

    def hit(phase):
        counts[phase] += 1
        if fault['phase'] == phase:
            if fault['k'] == 0:
                fault['phase'] = None
                if fault['exc'] == 'textx':
                    raise TextXError('injected %s failure' % phase)
                if fault['exc'] == 'base':
                    raise BoomBase('injected %s abort' % phase)
                raise Boom('injected %s failure' % phase)
            fault['k'] -= 1

    def make_mm():
        def rec(kind, obj, kw):
            hit('init')
        classes = [c for c in U.make_classes('plain', rec)] if use_classes else []
        mm = metamodel_from_str(T.GRAMMAR, classes=classes, global_repository=global_repo)
        inner = sp.PlainNameImportURI()

        class Prov(sp.ImportURI):
            def __init__(self):
                sp.ImportURI.__init__(self, sp.PlainName())

            def __call__(self, obj, attr, ref):
                if fault['phase'] == 'postponed' and ref.obj_name.endswith('v'):
                    return Postponed()
                hit('provider')
                return sp.ImportURI.__call__(self, obj, attr, ref)
        class ProvG(sp.PlainNameGlobalRepo):
            def __init__(self):
                sp.PlainNameGlobalRepo.__init__(self, os.path.join(tmp, 'other*.m'))

            def __call__(self, obj, attr, ref):
                if fault['phase'] == 'postponed' and ref.obj_name.endswith('v'):
                    return Postponed()
                hit('provider')
                return sp.PlainNameGlobalRepo.__call__(self, obj, attr, ref)
        mm.register_scope_providers({'*.*': ProvG() if globalrepo_provider else Prov()})

        def op(x):
            hit('obj_proc')

        def mp(x):
            hit('match_proc')
        mm.register_obj_processors({'Block': op, 'Leaf': op, 'Ref': op, 'Item': op, 'Model': op, 'Val': mp, 'Tag': mp})
        mm.register_model_processor(lambda model, metamodel: hit('model_proc'))
        return mm, classes
    mm, classes = make_mm()

    def write(tx):
        for nm, t in zip(['main.m', 'other.m'], tx):
            with open(os.path.join(tmp, nm), 'w') as f:
                f.write(t)
        if globalrepo_provider and len(tx) < 2:
            # the file pattern of the provider must match something
            with open(os.path.join(tmp, 'other0.m'), 'w') as f:
                f.write('model dummy0\n')

    def load(m_):
        if two_files and not globalrepo_provider:
            return m_.model_from_file(os.path.join(tmp, 'main.m'))
        return m_.model_from_str(texts_cur[0])
    try:
        texts_cur = texts
        write(texts)
        base_snap = U.snapshot(classes)
        for k in counts:
            counts[k] = 0
        try:
            clean = load(mm)
        except Exception as e:
            ctx.violation(None, 'harness model failed to load: %r' % e, {'files': texts}, rep)
            return
        clean_dump = P.dump_tx(clean)
        del clean
        if global_repo:
            mm, classes = make_mm()
            base_snap = U.snapshot(classes)
        clean_counts = dict(counts)
        cap = 5 if ctx.tier == 'quick' else 40
        plan = []
        for phase, n in clean_counts.items():
            ks = list(range(n)) if n <= cap else sorted(set([0, 1, n - 1] + [r.randrange(n) for _ in range(cap - 3)]))
            for k in ks:
                plan.append((phase, k, ['textx', 'other', 'base'][(k + len(phase)) % 3]))
        plan += [('syntax', 0, 'textx'), ('unknown_ref', 0, 'textx'), ('postponed', 0, 'textx')]
        if two_files:
            plan += [('syntax_imported', 0, 'textx'), ('unknown_ref_imported', 0, 'textx')]
        for phase, k, exc in plan:
            texts_cur = list(texts)
            if phase == 'syntax':
                texts_cur[0] += '\n}}} garbage'
            elif phase == 'unknown_ref':
                texts_cur[0] += ' ref zz -> nowhere\n'
            elif phase == 'syntax_imported':
                texts_cur[1] += '\n}} garbage'
            elif phase == 'unknown_ref_imported':
                texts_cur[1] += ' ref zz -> nowhere\n'
            write(texts_cur)
            fault.update(phase=phase if phase in counts or phase == 'postponed' else None, k=k, exc=exc)
            del _tracked[:]
            failed = None
            try:
                mdl = load(mm)
                del mdl
            except (TextXError, Boom, TypeError, BoomBase) as e:
                failed = type(e).__name__ + ': ' + str(e)[:80]
                if isinstance(e, BoomBase):
                    ctx.count('aborts_by_base_exception')
            fault['phase'] = None
            pname = {'syntax_imported': 'syntax', 'unknown_ref_imported': 'unknown_ref'}.get(phase, phase)
            ctx.count('phase_' + pname)
            if two_files:
                ctx.count('two_file_faults')
            if globalrepo_provider:
                ctx.count('globalrepo_provider_string_model_faults')
            wit = {'files': texts_cur, 'phase': phase, 'k': k, 'exception_kind': exc, 'user_classes': use_classes,
                   'global_repository': global_repo, 'globalrepo_provider_with_string_model': globalrepo_provider, 'error': failed}
            n_alloc = len(_tracked)
            ctx.case((tuple(n['kind'] for rt in roots for n in T.all_nodes(rt)), phase, k, exc, two_files, use_classes, global_repo, globalrepo_provider),
                     n_alloc > 0, wit if ctx.evaluations < 2 else None)
            if failed is None:
                ctx.count('injected_fault_did_not_fail_the_load')
                gc.collect()
                continue
            ctx.count('failed_loads')
            gc.collect()
            ctx.count('objects_tracked', n_alloc)
            alive = [w() for w in _tracked if not isinstance(w, tuple)]
            alive = [o for o in alive if o is not None]
            if alive:
                chain = referrer_chain(alive[0])
                ctx.violation(classify(chain, phase, global_repo), 'after a load that failed in phase %s (call %d, %s) %d of %d allocated objects '
                              'are still reachable; first: %s %r held via %s' % (
                                  phase, k, failed[:40], len(alive), n_alloc, type(alive[0]).__name__, getattr(alive[0], 'name', None),
                                  ' <- '.join(chain) or '?'), wit, rep)
                del alive
                # a fresh metamodel for the remaining faults of this model
                mm, classes = make_mm()
                base_snap = U.snapshot(classes)
                continue
            del alive
            snap = U.snapshot(classes)
            if snap != base_snap:
                ctx.violation(None, 'user classes differ from their state before loading after a failure in phase %s' % phase, wit, rep)
                mm, classes = make_mm()
                base_snap = U.snapshot(classes)
                continue
            # next load with the same metamodel equals the clean load
            if r.random() < 0.4:
                texts_cur = texts
                write(texts)
                try:
                    again = load(mm)
                    d2 = P.dump_tx(again)
                    del again
                except Exception as e:
                    d2 = ('error', repr(e)[:100])
                ctx.count('next_load_compared')
                if d2 != clean_dump:
                    ctx.violation(None, 'after a failure in phase %s the next load with the same metamodel differs from a fresh load: %s' % (
                        phase, str(d2)[:100]), wit, rep)
                if global_repo:
                    mm, classes = make_mm()
                    base_snap = U.snapshot(classes)
    finally:
        shutil.rmtree(tmp, ignore_errors=True)
        del _tracked[:]


def classify(chain, phase, global_repo):
    return None


def run(ctx):
    for i in ctx.indices(1200 if ctx.tier == "quick" else 10 ** 7, "random"):
        one(ctx, i)


def replay(ctx, rep):
    one(ctx, rep['i'], rep)

"""C06 - object source spans and locations are exact."""
import os
import shutil
import tempfile

from tv import pegdiff as P
from tv import refpeg as RP

ID = 'C06'
LEVEL = 'exploration'
QUICK_S = 60
THOROUGH_S = 900
TECHNIQUE = ('runtime monitoring: _tx_position/_tx_position_end/get_location of every model object compared with the token '
             'spans of an independent reference derivation of the same input (layout ground truth), structural span invariants')
RULE = ('random grammars (C01 generator incl. suppressed matches and keyword texts recurring in several roles; Comment rule in 40%) x derived inputs with random whitespace, '
        'CR/LF, CRLF line ends, tabs, comments between tokens (some containing U+2028, VT, NEL, FF, FS: line boundaries for str.splitlines but not newlines), leading and trailing noise; each accepted input is loaded from a string and '
        'from a file. For every object (paired with its reference node by parallel traversal): start = first matched '
        'character, end = right after the last one, slice non-empty, child inside parent, list siblings ordered and disjoint, '
        'get_location line/col by counting newlines, nchar = slice length, filename = absolute path or None. distinct = '
        '(grammar skeleton, input token kinds, load kind); non-trivial = model with >= 3 objects and the input contains a '
        'newline or a comment before some object')
REQUIRED = {'objects_checked': 2000, 'models': 300, 'file_loads': 100, 'string_loads': 100, 'inputs_with_comments': 10,
            'objects_after_newline': 200, 'locations_checked': 2000, 'crlf_layouts': 100, 'unusual_separator_layouts': 20, 'grammars_with_user_classes': 50}


def linecol(text, off):
    line = text.count('\n', 0, off) + 1
    col = off - (text.rfind('\n', 0, off) + 1) + 1
    return line, col


def pairs(refv, txv, out, parent=None, attr=None):
    """parallel traversal of reference object tree and textX model (same shape was checked before)"""
    if isinstance(refv, RP.RObj):
        out.append((refv, txv, parent, attr))
        for k, v in refv.attrs.items():
            pairs(v, getattr(txv, k, None), out, txv, k)
    elif isinstance(refv, list) and isinstance(txv, list):
        for a, b in zip(refv, txv):
            pairs(a, b, out, parent, attr)


def one(ctx, i, rep=None):
    with ctx.time_limit(30):
        _one(ctx, i, rep)


def _one(ctx, i, rep=None):
    from textx import metamodel_from_str, TextXError, get_location
    from tv.ggen import G, Deriver
    rep = rep or {'i': i}
    r = ctx.rng('g', i)
    gen_ = G(r, 0.0, pskip=0.15, pws=0.05, pcomment=0.4)
    if i % 3 == 1:
        gen_.preuse = 0.3
    gen_.psupref = 0.1
    g = gen_.grammar()
    feats = P.grammar_features(g)
    if 'suppress' in feats:
        ctx.count('grammars_with_suppression')
    text = RP.pr_grammar(g)
    if i % 2:
        # the first rule does not start at offset 0 of the grammar text (positions in the grammar and positions in
        # the model are different things)
        text = '// generated grammar\n\n  ' + text
    cfg = dict(skipws=True, auto_init_attributes=True, use_regexp_group=False)
    mmcfg = dict(cfg)
    if i % 3 == 0:
        # user classes for every common rule (plain classes that take the grammar attributes as keywords)
        kinds = RP.rule_kinds(g)

        def mkcls(name):
            def __init__(self, **kw):
                for k_, v_ in kw.items():
                    setattr(self, k_, v_)
            return type(name, (), {'__init__': __init__})
        mmcfg['classes'] = [mkcls(rl.name) for rl in g.rules if kinds[rl.name] == 'common']
        ctx.count('grammars_with_user_classes')
    try:
        mm = P.make_mm(text, **mmcfg)
    except TextXError as e:
        ctx.violation(None, 'generated grammar rejected: %s' % str(e)[:100], {'grammar': text}, rep)
        return
    skel = P.skeleton(g)
    tmp = None
    try:
        for k in range(6 if ctx.tier == 'quick' else 12):
            d = Deriver(g, r, True, None)
            d.comments = True
            try:
                s = d.run()
            except RecursionError:
                continue
            s = r.choice(['', ' ', '\n\n', '\t \r\n']) + s + r.choice(['', ' ', '\n', ' \n\t'])
            from_file = (k % 2 == 1)
            if r.random() < 0.3:
                s = s.replace('\n', '\r\n')
                ctx.count('crlf_layouts')
            if r.random() < 0.3 and '// c' in s:
                # characters that str.splitlines() treats as line boundaries but that are not newlines
                s = s.replace('// c', '// \u2028\x0b\x85\x0c\x1c c')
                ctx.count('unusual_separator_layouts')
            if from_file:
                # files are read with universal newlines: offsets refer to the text as decoded
                s = s.replace('\r\n', '\n').replace('\r', '\n')
            try:
                rp = RP.RefParser(g, s, True, None)
                tree = rp.run()
            except RP.Fail:
                continue
            except RecursionError:
                continue
            b = RP.Builder(g, True, False)
            refm = b.value(tree)
            fname = None
            try:
                if from_file:
                    if tmp is None:
                        tmp = tempfile.mkdtemp(prefix='tvc06_')
                    fname = os.path.join(tmp, 'm%d.txt' % k)
                    with open(fname, 'w', newline='') as f:
                        f.write(s)
                    m = mm.model_from_file(fname)
                    ctx.count('file_loads')
                else:
                    m = mm.model_from_str(s)
                    ctx.count('string_loads')
            except TextXError:
                continue      # acceptance differences are C01's business
            if ('ok', RP.dump_ref(refm)) != ('ok', P.dump_tx(m)):
                continue
            ctx.count('models')
            if '//' in s or '/*' in s:
                ctx.count('inputs_with_comments')
            out = []
            pairs(refm, m, out)
            wit = {'grammar': text, 'input': s, 'from_file': from_file}
            bad, nl_obj, nobj = evaluate(ctx, refm, m, s, fname, out)
            ctx.case((skel, P.token_kinds(s), from_file), len(out) >= 3 and nl_obj,
                     {'grammar': text, 'input': s, 'objects': len(out)} if ctx.evaluations < 2 else None)
            if bad:
                ctx.violation(classify_all(ctx, g, s, refm, m, bad, fname), bad, wit, rep)
    finally:
        if tmp:
            shutil.rmtree(tmp, ignore_errors=True)


def evaluate(ctx, refm, m, s, fname, out, count=True, kept_only=False):
    """compare every object of the textX model with its counterpart in the reference model: span, nesting, get_location,
    order of list siblings. Returns (first problem or None, an object lies after a newline, objects)"""
    from textx import get_location
    nl_obj = False
    bad = None
    spans = {}
    for ro, to, parent, attr in out:
        if isinstance(to, (str, int, float, bool)) or to is None:
            continue
        if count:
            ctx.count('objects_checked')
        st, en = getattr(to, '_tx_position', None), getattr(to, '_tx_position_end', None)
        spans[id(to)] = (st, en)
        # the object's text: from its first to its last matched character, suppressed matches included (kept_only: the
        # terminals that stay in the parse tree - the recorded suppressed-edge finding)
        ro_start, ro_end = (ro.start, ro.end) if kept_only else (getattr(ro, 'sstart', ro.start), getattr(ro, 'send', ro.end))
        cls = type(to).__name__
        if '\n' in s[:ro_start]:
            nl_obj = True
            if count:
                ctx.count('objects_after_newline')
        if (st, en) != (ro_start, ro_end):
            bad = '%s object: span (%r, %r) = %r, its text is (%d, %d) = %r' % (
                cls, st, en, s[st:en] if isinstance(st, int) and isinstance(en, int) else None, ro_start, ro_end, s[ro_start:ro_end])
            break
        if not (0 <= st < en <= len(s)):
            bad = '%s object: empty or out-of-range span (%r, %r)' % (cls, st, en)
            break
        if parent is not None and id(parent) in spans:
            ps, pe = spans[id(parent)]
            if not (ps <= st and en <= pe):
                bad = '%s object span (%d,%d) not inside its parent span (%d,%d)' % (cls, st, en, ps, pe)
                break
        loc = get_location(to)
        el, ec = linecol(s, ro_start)
        exp = {'line': el, 'col': ec, 'nchar': ro_end - ro_start, 'filename': os.path.abspath(fname) if fname else None}
        if count:
            ctx.count('locations_checked')
        if loc != exp:
            bad = '%s object: get_location %r, expected %r' % (cls, loc, exp)
            break
    if bad is None and count:
        # list siblings ordered and disjoint (in classification runs every span was just found equal to the emulating
        # reference's span, so an overlap is that reference's overlap: e.g. a dangling separator that is parsed again as the
        # first token of the next sibling)
        for ro, to, parent, attr in out:
            if isinstance(ro, RP.RObj):
                for k2, v in ro.attrs.items():
                    tv = getattr(to, k2, None)
                    if isinstance(tv, list):
                        last = -1
                        for x in tv:
                            if id(x) in spans:
                                a, b2 = spans[id(x)]
                                if a < last:
                                    bad = 'objects in list %s.%s overlap or are out of order' % (type(to).__name__, k2)
                                last = b2
    return bad, nl_obj, len(out)


def classify(ctx, g, s, refm, m, bad, fname):
    """dangling separator (Arpeggio keeps the separator node when the next element fails): the end of the
    enclosing nodes then lies after that separator. Reproduce it in the reference and compare all spans."""
    try:
        rp = RP.RefParser(g, s, True, None, emulate=('dangling-separator',))
        tree = rp.run()
        refm2 = RP.Builder(g, True, False).value(tree)
    except Exception:
        return None
    out = []
    pairs(refm2, m, out)
    # explained by the finding only if EVERYTHING (spans, nesting, locations, sibling order) agrees with the reference
    # that keeps the separator, and the plain reference's own spans differ from that one (a separator is involved)
    bad2, _nl, _n = evaluate(ctx, refm2, m, s, fname, out, count=False)
    if bad2 is not None:
        return None
    if RP.dump_spans(refm2) == RP.dump_spans(refm):
        return None
    return 'dangling-separator'


def spec_spans(v):
    out = []

    def walk(x):
        if isinstance(x, RP.RObj):
            out.append((x.cls, getattr(x, 'sstart', x.start), getattr(x, 'send', x.end)))
            for a in x.attrs.values():
                walk(a)
        elif isinstance(x, list):
            for y in x:
                walk(y)
    walk(v)
    return out


def classify_all(ctx, g, s, refm, m, bad, fname):
    key = classify(ctx, g, s, refm, m, bad, fname)
    if key:
        return key
    # suppressed matches at the edge of an object are outside its recorded span (suppressed matches leave no parse-tree
    # node): explained by that only if EVERYTHING agrees with the reference restricted to the kept terminals (alone or
    # together with the dangling separator), and the two readings differ for some object of this model
    cands = [refm]
    try:
        tree = RP.RefParser(g, s, True, None, emulate=('dangling-separator',)).run()
        cands.append(RP.Builder(g, True, False).value(tree))
    except Exception:
        pass
    for rm in cands:
        out = []
        pairs(rm, m, out)
        bad2, _nl, _n = evaluate(ctx, rm, m, s, fname, out, count=False, kept_only=True)
        if bad2 is None and spec_spans(rm) != RP.dump_spans(rm):
            return 'suppressed-edge-outside-span'
    return None


def run(ctx):
    for i in ctx.indices(2500 if ctx.tier == "quick" else 40000, "random"):
        one(ctx, i)


def replay(ctx, rep):
    one(ctx, rep['i'], rep)

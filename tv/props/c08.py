"""C08 - reference lists keep textual order under every postponement schedule."""
import itertools

ID = 'C08'
LEVEL = 'exploration'
QUICK_S = 40
THOROUGH_S = 300
EXHAUSTIVE_CLAIM = True
TECHNIQUE = 'runtime monitoring: scope provider wrapper imposing a postponement schedule + call log; order oracle on the resolved lists; exhaustive small-scope schedules'
RULE = ('exhaustive: lists of 1..4 (quick) / 1..6 (thorough) references x every schedule assigning each reference 0..2 (quick) '
        '/ 0..3 (thorough, up to 5 refs) Postponed answers before it resolves x target-name patterns (all distinct / with '
        'repeats) x one or two list attributes per object and a second list object; half of them also with references that touch each other (#a#b#c, no separator or blank between them); then random schedules on lists of up '
        'to 20 references; a third of the cases is repeated as a history of four loads through ONE metamodel (plain, '
        'scheduled, mirrored schedule, scheduled) with the earlier models discarded and collected. distinct = (names, schedule); non-trivial = the provider log shows a '
        'resolution order different from the textual order')
REQUIRED = {'lists_checked': 200, 'schedules_with_reordered_resolution': 20, 'postponed_answers': 100,
            'history_loads_one_metamodel': 200, 'touching_reference_lists': 200, 'loads_with_textx_tools_support': 200}

GRAMMAR = '''
Model: imports*=Import defs*=Def lists+=L;
Import: 'import' importURI=STRING;
Def: 'def' name=ID;
L: 'list' name=ID refs+=[Def][','] ('also' more+=[Def])? ';';
'''


GRAMMAR_TIGHT = '''
Model: defs*=Def lists+=L;
Def: 'def' name=TName;
TName: /#\\w+/;
L: 'list' name=ID refs+=[Def|TName] ('also' more+=[Def|TName])? ';';
'''


def build(names_lists, tight=False):
    """names_lists: list of (refs names, more names). returns text and list of per-list positions.
    tight: names are written #name and the references of a list touch each other (no separator, no blank)"""
    allnames = sorted({n for a, b in names_lists for n in a + b})
    if tight:
        text = ' '.join('def #' + n for n in allnames) + '\n'
        layout = []
        for li, (refs, more) in enumerate(names_lists):
            text += 'list l%d ' % li
            pr, pm = [], []
            for n in refs:
                pr.append(len(text))
                text += '#' + n
            if more:
                text += ' also '
                for n in more:
                    pm.append(len(text))
                    text += '#' + n
            text += ';\n'
            layout.append((pr, pm))
        return text, layout
    text = ' '.join('def ' + n for n in allnames) + '\n'
    layout = []
    for li, (refs, more) in enumerate(names_lists):
        text += 'list l%d ' % li
        pr = []
        for k, n in enumerate(refs):
            if k:
                text += ' , '
            pr.append(len(text))
            text += n
        pm = []
        if more:
            text += ' also'
            for n in more:
                text += ' '
                pm.append(len(text))
                text += n
        text += ' ;\n'
        layout.append((pr, pm))
    return text, layout


def make_mm(ctx, tight=False, tools=False):
    """a metamodel whose provider follows the schedule currently stored in state['left']"""
    from textx import metamodel_from_str
    from textx.scoping import Postponed
    from textx.scoping.providers import PlainName
    inner = PlainName()
    state = {'left': {}, 'log': []}

    def provider(obj, attr, obj_ref):
        pos = obj_ref.position
        if state['left'].get(pos, 0) > 0:
            state['left'][pos] -= 1
            state['log'].append(('P', pos))
            ctx.count('postponed_answers')
            return Postponed()
        state['log'].append(('R', pos))
        return inner(obj, attr, obj_ref)

    mm = metamodel_from_str(GRAMMAR_TIGHT if tight else GRAMMAR, textx_tools_support=tools)
    if tools:
        ctx.count('loads_with_textx_tools_support')
    mm.register_scope_providers({'*.*': provider})
    return mm, state


def load(ctx, text, schedule, rep, files=None, mm_state=None, tight=False, tools=False):
    """schedule: dict position -> number of Postponed answers. Returns (model, log) or (None, log)."""
    from textx import TextXError
    mm, state = mm_state or make_mm(ctx, tight, tools)
    state['left'] = dict(schedule)
    state['log'] = log = []
    try:
        return mm.model_from_str(text), log
    except TextXError as e:
        ctx.violation(None, 'load failed under a schedule in which every reference eventually resolves: %s' % str(e)[:120],
                      {'text': text, 'schedule': {str(k): v for k, v in schedule.items()}}, rep)
        return None, log


def lists_ok(ctx, m, names_lists, layout, schedule, text, log, rep, what=''):
    for l, (refs, more) in zip(m.lists, names_lists):
        for attr, exp in (('refs', refs), ('more', more)):
            got = [str(getattr(x, 'name', repr(x))).lstrip('#') for x in getattr(l, attr)]
            ctx.count('lists_checked')
            if got != list(exp):
                ctx.violation(classify(got, exp), '%slist %s.%s written as %r resolved to %r (postponed answers per reference: %r)' % (
                    what, l.name, attr, list(exp), got, [schedule.get(p, 0) for p in (layout[m.lists.index(l)][0 if attr == 'refs' else 1])]),
                    {'text': text, 'schedule': {str(k): v for k, v in schedule.items()}, 'log': log[:60]}, rep)
                return False
    return True


def history(ctx, names_lists, layout, text, schedule, rep, tight=False):
    """the same metamodel used for several loads, earlier models discarded (their memory is reused): a plain load, the
    scheduled load, a load with the schedule mirrored, the scheduled load again"""
    import gc
    mm_state = make_mm(ctx, tight, (len(text) % 4) < 2)
    mx = max(schedule.values()) if schedule else 0
    mirrored = {p: mx - v for p, v in schedule.items()}
    if set(mirrored.values()) != set(range(mx + 1)):
        mirrored = {}
    for step, sch in enumerate([{}, schedule, mirrored, schedule]):
        m, log = load(ctx, text, sch, rep, mm_state=mm_state)
        if m is None:
            return
        ctx.count('history_loads_one_metamodel')
        if not lists_ok(ctx, m, names_lists, layout, sch, text, log, rep, what='load %d with one metamodel: ' % (step + 1)):
            return
        del m
        gc.collect()


def check(ctx, names_lists, sched_lists, rep, sample=False, tight=False):
    text, layout = build(names_lists, tight)
    if tight:
        ctx.count('touching_reference_lists')
    schedule = {}
    for (pr, pm), (sr, sm) in zip(layout, sched_lists):
        for p, s in zip(pr, sr):
            schedule[p] = s
        for p, s in zip(pm, sm):
            schedule[p] = s
    rounds = set(schedule.values())
    if rounds != set(range(max(rounds) + 1)):
        # some round would resolve nothing while references are still pending: by textX's documented design
        # that is "unresolvable", not a schedule a provider can impose on a resolvable model
        ctx.count('schedules_skipped_round_without_progress')
        return
    tools = (len(text) + len(schedule)) % 2 == 1
    m, log = load(ctx, text, schedule, rep, tight=tight, tools=tools)
    res_order = [p for k, p in log if k == 'R']
    reordered = False
    for pr, pm in layout:
        for plist in (pr, pm):
            seq = [p for p in res_order if p in plist]
            if seq != sorted(seq):
                reordered = True
    if reordered:
        ctx.count('schedules_with_reordered_resolution')
    ctx.case((tuple(map(lambda x: (tuple(x[0]), tuple(x[1])), names_lists)), tuple(sorted(schedule.items()))), reordered,
             {'text': text, 'postponed_answers_per_reference_position': {str(k): v for k, v in schedule.items() if v}}
             if sample else None)
    if m is None:
        return
    if not lists_ok(ctx, m, names_lists, layout, schedule, text, log, rep):
        return
    del m
    if sum(len(a) + len(b) for a, b in names_lists) >= 2 and (len(text) + sum(schedule.values())) % 3 == 0:
        history(ctx, names_lists, layout, text, schedule, rep, tight)


def classify(got, exp):
    return None


def space(tier):
    maxn, maxp = (4, 2) if tier == 'quick' else (6, 3)
    out = []
    for n in range(1, maxn + 1):
        pmax = maxp if n <= 5 else 2
        pats = [['t%d' % i for i in range(n)]]
        if n >= 3:
            pats.append(['t%d' % (i % (n - 1)) for i in range(n)])      # a repeat at the end
        for names in pats:
            for sched in itertools.product(range(pmax + 1), repeat=n):
                out.append((names, sched))
    return out


def run_exh(ctx, sp, i):
    names, sched = sp[i]
    variant = i % 3
    if variant == 0:
        nl, sl = [(names, [])], [(sched, [])]
    elif variant == 1:
        nl, sl = [(names, names[::-1])], [(sched, sched)]
    else:
        nl, sl = [(names, []), (names[::-1], names[:1])], [(sched, []), (sched[::-1], (1,))]
    check(ctx, nl, sl, {'phase': 'exh', 'tier': ctx.tier, 'i': i}, sample=(i % 97 == 5))
    if i % 2 == 0:
        check(ctx, nl, sl, {'phase': 'exh', 'tier': ctx.tier, 'i': i}, tight=True)


def run_rand(ctx, i):
    r = ctx.rng('rand', i)
    nl, sl = [], []
    for _ in range(r.randint(1, 3)):
        n = r.randint(2, 20)
        pool = ['t%d' % k for k in range(r.randint(1, n))]
        refs = [r.choice(pool) for _ in range(n)]
        more = [r.choice(pool) for _ in range(r.randint(0, 4))]
        nl.append((refs, more))
        sl.append(([r.choice([0, 0, 1, 2, 5]) for _ in refs], [r.choice([0, 1, 3]) for _ in more]))
    ranks = {v: k for k, v in enumerate(sorted({x for a, b in sl for x in list(a) + list(b)}))}
    sl = [([ranks[x] for x in a], [ranks[x] for x in b]) for a, b in sl]
    check(ctx, nl, sl, {'phase': 'rand', 'i': i}, sample=(i < 2), tight=(i % 3 == 0))


def run(ctx):
    sp = space(ctx.tier)
    ctx.note('exhaustive_space', {'cases': len(sp)})
    total = ctx.deadline - ctx.t0
    ctx.deadline = ctx.t0 + total * 0.7
    for i in ctx.indices(len(sp), 'exhaustive', exhaustive=True):
        run_exh(ctx, sp, i)
    ctx.deadline = ctx.t0 + total
    for i in ctx.indices(6000 if ctx.tier == 'quick' else 10 ** 7, 'random'):
        run_rand(ctx, i)


def replay(ctx, rep):
    if rep['phase'] == 'exh':
        run_exh(ctx, space(rep['tier']), rep['i'])
    else:
        run_rand(ctx, rep['i'])

"""C18 - a failing multi-file load leaves the model repositories clean."""
import os
import shutil
import tempfile

from tv import mfiles as M
from tv.props import c17 as C17

ID = 'C18'
LEVEL = 'fault_enumeration'
QUICK_S = 60
THOROUGH_S = 300
TECHNIQUE = ('runtime monitoring with fault injection: every file of the import closure x every failure phase; repository '
             'census (global repository contents by file name and object identity, repositories reachable from surviving '
             'models) before and after the failed attempt; repaired reload with identity checks')
RULE = ('random import graphs (generator of C17: cycles, diamonds, sub-directories) with PlainNameImportURI / FQNImportURI; '
        'global repository on (2/3) and off; an unrelated file is loaded and cached first. For every file X of the closure '
        'of the main file and every phase in {syntax error, unresolved reference, object processor error, model processor '
        'error} X is rewritten with the fault, the main file is loaded (must fail), then: the global repository holds '
        'exactly the entries (same objects) it held before, no repository reachable from the surviving cached model holds '
        'a model of the failed attempt; X is repaired and the reload must succeed with one model object per file and '
        'correct reference targets. distinct = (graph shape, failing file position, phase, repository mode); non-trivial = '
        'the failing file is an import (direct or transitive)')
REQUIRED = {'failed_attempts': 300, 'phase_syntax': 30, 'phase_unresolved': 30, 'phase_objproc': 30, 'phase_modelproc': 30,
            'fault_in_main': 30, 'fault_in_direct_import': 30, 'fault_in_transitive_import': 20, 'repaired_reloads': 100,
            'global_repo_attempts': 100, 'string_main_with_globalrepo_provider_attempts': 50,
            'caller_repo_cases': 30, 'caller_repo_cases_with_user_class_root': 10}
PHASES = ['syntax', 'unresolved', 'objproc', 'modelproc']


def repo_census(mm):
    rep = getattr(mm, '_tx_model_repository', None)
    if rep is None:
        return None
    return {fn: id(m) for fn, m in rep.all_models.filename_to_model.items()}


def globalrepo_string_main(ctx, i, rep):
    """GlobalRepo-type provider (file pattern) + metamodel-wide repository + the main model given as a STRING: the
    string model is registered in the shared repository under an invented name and must disappear again when the
    load fails."""
    from textx import metamodel_from_str, TextXError
    import textx.scoping.providers as sp
    r = ctx.rng('gs', i)
    tmp = tempfile.mkdtemp(prefix='tvc18g_')
    try:
        libs = {'lib1.m': 'def l1 def l2\n', 'lib2.m': 'def k1 ref rk -> k1\n'}
        for nm, t in libs.items():
            with open(os.path.join(tmp, nm), 'w') as f:
                f.write(t)

        def objproc(o):
            if o.name == 'boom':
                raise TextXError('object processor failure')

        def modelproc(model, metamodel):
            if any(x.name == 'mboom' for x in getattr(model, 'defs', [])):
                raise ValueError('model processor failure')
        prov = r.choice(['plain', 'fqn'])
        mm = metamodel_from_str(M.GRAMMAR, global_repository=True)
        cls = sp.PlainNameGlobalRepo if prov == 'plain' else sp.FQNGlobalRepo
        mm.register_scope_providers({'*.*': cls(os.path.join(tmp, 'lib*.m'))})
        mm.register_obj_processors({'Def': objproc})
        mm.register_model_processor(modelproc)
        good = 'def a ref r1 -> l1 ref r2 -> a\n'
        wit0 = {'library_files': libs, 'provider': prov + ' GlobalRepo', 'main_model': 'string'}
        if r.random() < 0.5:
            mm.model_from_file(os.path.join(tmp, 'lib2.m'))      # something cached by an earlier successful load
        for phase in r.sample(PHASES, len(PHASES)):
            fault = {'syntax': '\n}}} garbage\n', 'unresolved': 'ref zz -> nowhere\n', 'objproc': 'def boom\n',
                     'modelproc': 'def mboom\n'}[phase]
            before = repo_census(mm)
            failed = None
            try:
                mm.model_from_str(good + fault)
            except (TextXError, ValueError) as e:
                failed = str(e)[:100]
            wit = dict(wit0, text=good + fault, phase=phase, error=failed)
            ctx.case(('globalrepo-string-main', prov, phase), True, wit if ctx.evaluations < 3 else None)
            if failed is None:
                ctx.violation(None, 'string main model with a %s fault loaded successfully' % phase, wit, rep)
                return
            ctx.count('failed_attempts')
            ctx.count('string_main_with_globalrepo_provider_attempts')
            after = repo_census(mm)
            # models of the pattern loaded by the failed attempt may legitimately... no: nothing of a failed load stays
            if after != before:
                extra = sorted(os.path.basename(k) for k in after if k not in before)
                lost = sorted(os.path.basename(k) for k in before if k not in after)
                ctx.violation(None, 'after a failed load of a string main model (%s fault, %s GlobalRepo provider) the global repository '
                              'changed: left behind %r, lost %r' % (phase, prov, extra, lost), wit, rep)
                return
            try:
                m = mm.model_from_file(os.path.join(tmp, 'lib1.m')) if r.random() < 0.5 else mm.model_from_str(good)
                del m
            except (TextXError, ValueError) as e:
                ctx.violation(None, 'after a failed string-main load (%s fault) a correct load fails: %s' % (phase, str(e)[:100]), wit, rep)
                return
            ctx.count('repaired_reloads')
    finally:
        shutil.rmtree(tmp, ignore_errors=True)


CALLER_GRAMMAR = """
Model: things*=Thing uses*=Use;
Thing: 'thing' name=ID;
Use: 'use' ref=[Thing|FQN];
FQN: ID('.'ID)*;
"""


def caller_owned_repository(ctx, i, rep):
    """Models loaded into a repository that the CALLER owns (GlobalRepo.load_models_in_model_repo(global_model_repo=...)),
    the metamodel has none of its own; with and without a user class for the model object. A failing group of files must
    leave that repository as it was; after the repair the group loads completely and is linked to the cached models."""
    from textx import metamodel_from_str, TextXError, register_language, clear_language_registrations
    from textx.scoping import GlobalModelRepository
    import textx.scoping.providers as sp
    r = ctx.rng('caller', i)
    tmp = os.path.realpath(tempfile.mkdtemp(prefix='tvc18c_'))
    try:
        os.mkdir(os.path.join(tmp, 'base'))
        os.mkdir(os.path.join(tmp, 'proj'))
        user_root = r.random() < 0.6
        classes = []
        if user_root:
            class Model:
                def __init__(self, things=None, uses=None):
                    self.things = things or []
                    self.uses = uses or []
            classes = [Model]
            ctx.count('caller_repo_cases_with_user_class_root')
        nproj = r.randint(2, 4)
        files = {'base/x.m': 'thing x1 thing x2\n'}
        for k in range(nproj):
            tgt = r.choice(['x1', 'x2'] + ['p%d' % j for j in range(nproj)])
            files['proj/f%d.m' % k] = 'thing p%d\nuse %s\n' % (k, tgt)
        bad = 'proj/f%d.m' % r.randrange(nproj)
        phase = r.choice(['unresolved', 'unresolved', 'syntax', 'objproc'])
        fault = {'syntax': '}}} garbage\n', 'unresolved': 'use nowhere\n', 'objproc': 'thing boom\n'}[phase]
        for f, t in files.items():
            with open(os.path.join(tmp, f), 'w') as fh:
                fh.write(t + (fault if f == bad else ''))

        def objproc(o):
            if o.name == 'boom':
                raise TextXError('object processor failure')
        prov = (sp.FQNGlobalRepo if r.random() < 0.5 else sp.PlainNameGlobalRepo)()
        mm = metamodel_from_str(CALLER_GRAMMAR, classes=classes)
        mm.register_scope_providers({'*.*': prov})
        mm.register_obj_processors({'Thing': objproc})
        clear_language_registrations()
        register_language('tvc18-dsl', pattern='*.m', metamodel=mm)
        repo = GlobalModelRepository()
        wit = {'files': files, 'failing_file': bad, 'phase': phase, 'user_class_for_model_object': user_root,
               'provider': type(prov).__name__}
        ctx.count('caller_repo_cases')
        ctx.case(('caller-repo', nproj, phase, user_root, type(prov).__name__), True, wit if ctx.evaluations < 3 else None)

        def names():
            return sorted(os.path.relpath(k, tmp) for k in repo.all_models.filename_to_model)
        prov.register_models(os.path.join(tmp, 'base', '*.m'))
        prov.load_models_in_model_repo(global_model_repo=repo)
        xm = repo.all_models.filename_to_model.get(os.path.join(tmp, 'base', 'x.m'))
        if names() != ['base/x.m'] or xm is None:
            raise RuntimeError('harness: first load gives %r' % names())
        prov.register_models(os.path.join(tmp, 'proj', '*.m'))
        try:
            prov.load_models_in_model_repo(global_model_repo=repo)
            ctx.violation(None, 'caller-owned repository: the group with the faulty file %s loaded' % bad, wit, rep)
            return
        except TextXError:
            pass
        ctx.count('failed_attempts')
        if names() != ['base/x.m'] or repo.all_models.filename_to_model.get(os.path.join(tmp, 'base', 'x.m')) is not xm:
            ctx.violation(None, 'after a failed load (%s fault in %s%s) the repository owned by the caller holds %r, before the load it '
                          'held [\'base/x.m\']' % (phase, bad, ', user class for the model object' if user_root else '', names()), wit, rep)
            return
        with open(os.path.join(tmp, bad), 'w') as fh:
            fh.write(files[bad])
        try:
            prov.load_models_in_model_repo(global_model_repo=repo)
        except TextXError as e:
            ctx.violation(None, 'caller-owned repository: reload after repairing %s fails: %s' % (bad, str(e)[:120]), wit, rep)
            return
        ctx.count('repaired_reloads')
        if names() != sorted(files):
            ctx.violation(None, 'caller-owned repository: after the repaired reload it holds %r' % names(), wit, rep)
            return
        things = {}
        for f in files:
            mo = repo.all_models.filename_to_model[os.path.join(tmp, f)]
            if not getattr(mo, 'things', None):
                ctx.violation(None, 'caller-owned repository: %s is not a complete model after the repaired reload' % f, wit, rep)
                return
            for t in mo.things:
                things[t.name] = t
        for f in files:
            mo = repo.all_models.filename_to_model[os.path.join(tmp, f)]
            for u, line in zip(mo.uses, [l for l in files[f].splitlines() if l.startswith('use ')]):
                if u.ref is not things[line.split()[1]]:
                    ctx.violation(None, 'caller-owned repository: %r of %s is not linked to the element of the stored model' % (line, f), wit, rep)
                    return
        if repo.all_models.filename_to_model.get(os.path.join(tmp, 'base', 'x.m')) is not xm:
            ctx.violation(None, 'caller-owned repository: the model of the first load was replaced', wit, rep)
    finally:
        from textx import clear_language_registrations as _c
        _c()
        shutil.rmtree(tmp, ignore_errors=True)


def one(ctx, i, rep=None):
    from textx import metamodel_from_str, TextXError
    import textx.scoping.providers as sp
    rep = rep or {'i': i}
    if i % 5 == 3:
        return globalrepo_string_main(ctx, i, rep)
    if i % 5 == 1:
        return caller_owned_repository(ctx, i, rep)
    r = ctx.rng('d', i)
    global_repo = (i % 3 != 2)
    prov = ['plain', 'fqn'][i % 2]
    tmp = tempfile.mkdtemp(prefix='tvc18_')
    try:
        d = M.gen_dir(r, tmp, nfiles=r.randint(2, 5), collisions=False)
        M.add_refs(d, r, per_file=(0, 2))
        texts = {f: M.file_text(d, f) for f in d.order}
        M.write_dir(d, texts)
        upath = os.path.join(tmp, 'unrelated.m')
        with open(upath, 'w') as f:
            f.write('def u0 def u1 ref ru -> u0\n')
        def objproc(o):
            if o.name == 'boom':
                raise TextXError('object processor failure')

        def modelproc(model, metamodel):
            if any(x.name == 'mboom' for x in getattr(model, 'defs', [])):
                raise ValueError('model processor failure')
        def fresh_mm():
            mm_ = metamodel_from_str(M.GRAMMAR, global_repository=global_repo)
            mm_.register_scope_providers({'*.*': sp.PlainNameImportURI() if prov == 'plain' else sp.FQNImportURI()})
            mm_.register_obj_processors({'Def': objproc})
            mm_.register_model_processor(modelproc)
            return mm_, mm_.model_from_file(upath)
        top = r.choice(d.order)
        clo = M.closure(d, top)
        direct = set(d.files[top]['imports'])
        wit0 = {'files': texts, 'main': top, 'provider': prov, 'global_repository': global_repo}
        for X in clo:
            # a repaired reload caches the closure: every failing file gets its own metamodel (with the
            # unrelated model cached first)
            mm, survivor = fresh_mm()
            for phase in PHASES:
                fault = {'syntax': '\n}}} garbage\n', 'unresolved': 'ref zz -> nowhere\n', 'objproc': 'def boom\n',
                         'modelproc': 'def mboom\n'}[phase]
                if phase == 'modelproc' and X != top and not global_repo:
                    pass
                with open(d.files[X]['path'], 'w') as f:
                    f.write(texts[X] + fault)
                before = repo_census(mm)
                failed = None
                try:
                    mdl = mm.model_from_file(d.files[top]['path'])
                    del mdl
                except (TextXError, ValueError) as e:
                    failed = str(e)[:100]
                where = 'main' if X == top else ('direct_import' if X in direct else 'transitive_import')
                wit = dict(wit0, failing_file=X, phase=phase, error=failed)
                ctx.case((tuple(tuple(d.order.index(t) for t in d.files[f]['imports']) for f in d.order), d.order.index(X),
                          d.order.index(top), phase, global_repo), X != top, wit if ctx.evaluations < 2 else None)
                with open(d.files[X]['path'], 'w') as f:
                    f.write(texts[X])
                if failed is None:
                    ctx.violation(None, 'file %s has a %s fault but loading %s succeeded' % (X, phase, top), wit, rep)
                    return
                ctx.count('failed_attempts')
                ctx.count('phase_' + phase)
                ctx.count('fault_in_' + where)
                if global_repo:
                    ctx.count('global_repo_attempts')
                    after = repo_census(mm)
                    if after != before:
                        extra = sorted(os.path.basename(k) for k in after if k not in before)
                        lost = sorted(os.path.basename(k) for k in before if k not in after)
                        changed = sorted(os.path.basename(k) for k in after if k in before and after[k] != before[k])
                        ctx.violation(None, 'after a failed load of %s (%s fault in %s, %s) the global repository changed: left behind %r, '
                                      'lost %r, replaced %r' % (top, phase, X, where, extra, lost, changed), wit, rep)
                        return
                # repositories reachable from the surviving model
                reach = C17.all_models_reachable(survivor)
                bad = [fn for fn in reach if fn and os.path.abspath(fn) != os.path.abspath(upath)]
                if bad:
                    ctx.violation(None, 'after a failed load (%s fault in %s) the repository of an earlier, unrelated model holds %r' % (
                        phase, X, [os.path.basename(b) for b in bad]), wit, rep)
                    return
                if global_repo and getattr(mm._tx_model_repository.all_models, 'filename_to_model', {}).get(os.path.abspath(upath)) is not survivor:
                    ctx.violation(None, 'the model cached by an earlier successful load is gone after a failed load', wit, rep)
                    return
            # ---- repaired reload --------------------------------------------------
            try:
                m = mm.model_from_file(d.files[top]['path'])
            except (TextXError, ValueError) as e:
                ctx.violation(None, 'after repairing %s the reload of %s fails: %s' % (X, top, str(e)[:120]), dict(wit0, repaired=X), rep)
                return
            ctx.count('repaired_reloads')
            reach = C17.all_models_reachable(m)
            for fn, lst in reach.items():
                if fn and len({id(x) for x in lst}) != 1:
                    ctx.violation(None, 'after a repaired reload %d model objects exist for %s' % (len({id(x) for x in lst}), os.path.basename(fn)),
                                  dict(wit0, repaired=X), rep)
                    return
            by_file = {os.path.abspath(fn): lst[0] for fn, lst in reach.items() if fn}
            for f in clo:
                mo = by_file.get(os.path.abspath(d.files[f]['path']))
                if mo is None:
                    ctx.violation(None, 'after a repaired reload no model for %s is reachable' % f, dict(wit0, repaired=X), rep)
                    return
                for (rn, tgt, more), robj in zip(d.files[f]['refs'], mo.refs):
                    exp_file = M.visible_plain(d, f, tgt)
                    if C17.model_of(robj.target) is not by_file[os.path.abspath(d.files[exp_file]['path'])]:
                        ctx.violation(None, 'after a repaired reload reference %r of %s points into another model object than the one '
                                      'registered for %s' % (tgt, f, exp_file), dict(wit0, repaired=X), rep)
                        return
    finally:
        shutil.rmtree(tmp, ignore_errors=True)


def run(ctx):
    for i in ctx.indices(600 if ctx.tier == 'quick' else 10 ** 7, 'random'):
        one(ctx, i)


def replay(ctx, rep):
    one(ctx, rep['i'], rep)

"""C07 - default reference resolution finds the unique matching object."""
import itertools

ID = 'C07'
LEVEL = 'exploration'
QUICK_S = 45
THOROUGH_S = 300
TECHNIQUE = ('runtime monitoring: identity of every resolved reference (or the raised error) compared with a reference resolver '
             'that scans the generated model; many grammar variants with the same rule names interleaved in one process')
RULE = ('grammar family: abstract target Shape over every non-empty ordered subset of {Circle, Square, Wire} (15 variants, '
        'same rule names, different hierarchies, interleaved in one process), unrelated class Other reusing names, nested '
        'groups; references to the abstract target, to a concrete class, in single and list attributes; builtins dictionaries '
        'with conforming / non-conforming / shadowed entries. Per model 0 or 1 erroneous reference (dangling, wrong type, '
        'ambiguous). Oracle: candidates = contained objects with that name and a conforming type; one -> it, none -> conforming '
        'builtin else "Unknown object", several -> "not unique". distinct = (variant, model shape); non-trivial = model has '
        'same-named objects of unrelated classes or a nested definition')
REQUIRED = {'models': 300, 'references_resolved': 1500, 'unknown_object_errors': 30, 'not_unique_errors': 20,
            'builtin_resolutions': 20, 'nonconforming_same_name': 100, 'grammar_variants': 10, 'list_references': 200, 'models_with_numeric_names': 100, 'models_with_falsy_builtins': 50, 'mixed_lists_starting_with_a_plain_value': 100,
            'models_with_tools_support_and_builtins': 50, 'models_with_builtins_outside_any_model': 50}

CONCRETE = ['Circle', 'Square', 'Wire']
KW = {'Circle': 'circle', 'Square': 'square', 'Wire': 'wire', 'Other': 'other'}


def variants():
    out = []
    for n in (1, 2, 3):
        for sub in itertools.permutations(CONCRETE, n):
            out.append(sub)
    return out


def grammar(sub, numeric=False):
    g = '''
Model: (defs+=Def | groups+=Group | refs+=Ref | mixed+=Mixed)*;
Mixed: 'mixed' items+=MVal[','] ';';
MVal: INT | STRING | Circle | Square | Wire | Other;
Def: Shape | %s Other;
Shape: %s;
Circle: 'circle' name=ID;
Square: 'square' name=ID;
Wire: 'wire' name=ID;
Other: 'other' name=ID;
Group: 'group' name=ID '{' (defs+=Def | groups+=Group)* '}';
Ref: 'ref' name=ID ('shape' s=[Shape] | 'circle' c=[Circle] | 'wire' w=[Wire] | 'list' l+=[Shape][','] | 'other' o=[Other]);
''' % (''.join(c + ' | ' for c in CONCRETE if c not in sub), ' | '.join(sub))
    if numeric:
        # objects named by numbers: the name and the reference text are converted by the INT match rule
        for c in ('circle', 'square', 'wire', 'other'):
            g = g.replace("'%s' name=ID;" % c, "'%s' name=INT;" % c)
        for t in ('Shape', 'Circle', 'Wire', 'Other'):
            g = g.replace('[%s]' % t, '[%s|INT]' % t)
    return g


NUM = {'a': '1', 'b': '2', 'c': '3', 'd': '4', 'e': '5', 'z': '26'}


_mms = {}


def get_mm(sub, builtins_spec, numeric=False, falsy=False, tools=False, orphan=False):
    """metamodels are kept alive and reused so that many variants coexist in the process"""
    from textx import metamodel_from_str
    key = (sub, builtins_spec, numeric, falsy, tools, orphan)
    if key not in _mms:
        if len(_mms) > 200:
            _mms.clear()
        g = grammar(sub, numeric)
        builtins = {}
        if builtins_spec:
            hclasses = []
            if falsy:
                # builtins entries whose truth value is False (user classes with __bool__ / __len__)
                class Circle:
                    def __init__(self, parent=None, name=None):
                        self.parent, self.name = parent, name

                    def __bool__(self):
                        return False

                class Square:
                    def __init__(self, parent=None, name=None):
                        self.parent, self.name = parent, name

                    def __len__(self):
                        return 0
                hclasses = [Circle, Square]
            helper = metamodel_from_str(g, classes=hclasses)
            bm = helper.model_from_str(' '.join('%s %s' % (KW[c], NUM[n] if numeric else n) for n, c in builtins_spec))
            for d in bm.defs:
                builtins[d.name] = d
                if orphan:
                    # hand-made library objects that belong to no model (the documented SimpleType(None, 'int') pattern)
                    d.parent = None
        kw = {'textx_tools_support': True} if tools else {}
        _mms[key] = metamodel_from_str(g, builtins=builtins, **kw) if builtins else metamodel_from_str(g, **kw)
    return _mms[key]


def one(ctx, i, rep=None):
    from textx import TextXSemanticError, TextXError
    rep = rep or {'i': i}
    r = ctx.rng('m', i)
    vs = variants()
    sub = vs[(i * 7 + r.randrange(len(vs))) % len(vs)]
    ctx.maxc('max_variant_index', vs.index(sub))
    conform = {'Shape': set(sub), 'Circle': {'Circle'}, 'Wire': {'Wire'}, 'Other': {'Other'}}
    names = ['a', 'b', 'c', 'd', 'e']
    numeric = (i % 4 == 3)
    if numeric:
        ctx.count('models_with_numeric_names')

    def sp(n):
        return NUM[n] if numeric else n

    def logical(v):
        return {int(x): k for k, x in NUM.items()}.get(v, v) if numeric else v
    # ---- definitions: (class, name, path)
    defs = []
    text = []

    def gen_defs(depth, path):
        out = ''
        for _ in range(r.randint(1, 4)):
            if depth < 2 and r.random() < 0.25:
                gn = 'g%d' % len(defs)
                defs.append(('Group', gn, path))
                out += 'group %s { %s } ' % (gn, gen_defs(depth + 1, path + [gn]))
            else:
                c = r.choice(CONCRETE + ['Other'])
                n = r.choice(names)
                defs.append((c, n, path))
                out += '%s %s ' % (KW[c], sp(n))
        return out
    body = gen_defs(0, [])
    # lists that mix plain values and named objects (the list may start with a plain value)
    for _ in range(r.choice([0, 0, 1, 2])):
        elems = []
        for _k in range(r.randint(1, 4)):
            if r.random() < 0.5:
                elems.append(r.choice(['7', '"s"', '0']))
            else:
                c = r.choice(CONCRETE + ['Other'])
                n = r.choice(names)
                defs.append((c, n, []))
                elems.append('%s %s' % (KW[c], sp(n)))
        body += ' mixed ' + ' , '.join(elems) + ' ; '
        ctx.count('mixed_lists')
        if not elems[0].split()[0] in KW.values():
            ctx.count('mixed_lists_starting_with_a_plain_value')
    # make names unique per conforming set unless we want an ambiguity: drop exact duplicates (class, name)
    seen = set()
    dedup_body = body
    # builtins
    bspec = ()
    if r.random() < 0.4:
        bspec = tuple(sorted((r.choice(names + ['z']), r.choice(CONCRETE + ['Other'])) for _ in range(r.randint(1, 3))))
        bspec = tuple(dict(bspec).items())
    falsy = bool(bspec) and i % 5 == 2
    if falsy:
        ctx.count('models_with_falsy_builtins')
    tools = i % 4 == 1 or (bool(bspec) and i % 4 == 3)
    orphan = bool(bspec) and i % 3 == 0
    if tools:
        ctx.count('models_with_tools_support')
        if bspec:
            ctx.count('models_with_tools_support_and_builtins')
    if orphan:
        ctx.count('models_with_builtins_outside_any_model')
    mm = get_mm(sub, bspec, numeric, falsy, tools, orphan)
    builtins = {n: c for n, c in bspec}

    def candidates(name, target):
        return [d for d in defs if d[1] == name and d[0] in conform[target]]

    # ---- references: choose so that at most one is erroneous, and it is the last one in the text
    refs = []
    kinds = [('s', 'Shape', 'shape'), ('c', 'Circle', 'circle'), ('w', 'Wire', 'wire'), ('o', 'Other', 'other'), ('l', 'Shape', 'list')]

    def outcome(name, target):
        cand = candidates(name, target)
        if len(cand) == 1:
            return ('obj', cand[0])
        if len(cand) > 1:
            return ('not-unique', name)
        if name in builtins and builtins[name] in conform[target]:
            return ('builtin', name)
        return ('unknown', name)
    good = []
    bad = []
    for attr, target, kw in kinds:
        for name in names + ['z']:
            o = outcome(name, target)
            (good if o[0] in ('obj', 'builtin') else bad).append((attr, target, kw, name, o))
    r.shuffle(good)
    r.shuffle(bad)
    rtext = ''
    nref = 0
    for attr, target, kw, name, o in good[:r.randint(0, 6)]:
        if attr == 'l':
            # list of good references
            more = [g for g in good if g[1] == 'Shape'][:r.randint(1, 3)]
            lst = [(name, o)] + [(g[3], g[4]) for g in more]
            rtext += 'ref r%d list %s\n' % (nref, ' , '.join(sp(x[0]) for x in lst))
            refs.append(('l', lst))
        else:
            rtext += 'ref r%d %s %s\n' % (nref, kw, sp(name))
            refs.append((attr, [(name, o)]))
        nref += 1
    expect_err = None
    if bad and r.random() < 0.45:
        attr, target, kw, name, o = bad[0]
        if attr == 'l':
            pre = [g for g in good if g[1] == 'Shape'][:r.randint(0, 2)]
            rtext += 'ref r%d list %s\n' % (nref, ' , '.join([sp(g[3]) for g in pre] + [sp(name)]))
        else:
            rtext += 'ref r%d %s %s\n' % (nref, kw, sp(name))
        expect_err = (o[0], name, target)
    text = body + '\n' + rtext
    wit = {'grammar_shape_alternatives': list(sub), 'model': text, 'builtins': list(bspec)}
    same_name_other = any(d1[1] == d2[1] and d1[0] != d2[0] for d1 in defs for d2 in defs)
    if same_name_other:
        ctx.count('nonconforming_same_name')
    ctx.case((sub, tuple(d[0] for d in defs), tuple(x[0] for x in refs), expect_err and expect_err[0]),
             same_name_other or any(d[2] for d in defs), wit if ctx.evaluations < 2 else None)
    try:
        m = mm.model_from_str(text)
    except TextXSemanticError as e:
        msg = str(e)
        if expect_err is None:
            ctx.violation(None, 'every reference has exactly one conforming target, yet loading failed: %s' % msg[:140], wit, rep)
            return
        kind, name, target = expect_err
        if kind == 'unknown':
            ok = 'Unknown object "%s" of class "%s"' % (sp(name), target) in msg and getattr(e, 'err_type', None) == 'Unknown object'
            ctx.count('unknown_object_errors')
        else:
            ok = 'name %s is not unique' % sp(name) in msg
            ctx.count('not_unique_errors')
        if not ok:
            ctx.violation(None, 'expected a %s error for %r (target %s), got: %s' % (kind, name, target, msg[:140]), wit, rep)
        ctx.count('models')
        return
    except TextXError as e:
        ctx.violation(None, 'unexpected error: %s' % str(e)[:140], wit, rep)
        return
    except (AttributeError, TypeError, KeyError, IndexError, ValueError) as e:
        ctx.violation(None, 'loading raised %s: %s (tools support %s, builtins %r%s)' % (
            type(e).__name__, str(e)[:100], tools, list(bspec), ' belonging to no model' if orphan else ''), wit, rep)
        return
    ctx.count('models')
    if expect_err is not None:
        ctx.violation(None, 'reference %r to %s should fail with %s but loading succeeded' % (expect_err[1], expect_err[2], expect_err[0]), wit, rep)
        return
    # map definitions to objects
    objs = {}

    def collect(container, path):
        for d in getattr(container, 'defs', []):
            objs.setdefault((type(d).__name__, logical(d.name), tuple(path)), []).append(d)
        for mx in getattr(container, 'mixed', []):
            for it in mx.items:
                if hasattr(it, 'name') and not isinstance(it, (str, int)):
                    objs.setdefault((type(it).__name__, logical(it.name), tuple(path)), []).append(it)
        for g in getattr(container, 'groups', []):
            collect(g, path + [g.name])
    collect(m, [])
    for (attr, lst), robj in zip(refs, m.refs):
        got = getattr(robj, attr)
        got = got if isinstance(got, list) else [got]
        if attr == 'l':
            ctx.count('list_references', len(lst))
        if len(got) != len(lst):
            ctx.violation(None, 'reference list has %d entries, %d were written' % (len(got), len(lst)), wit, rep)
            return
        for (name, o), g in zip(lst, got):
            ctx.count('references_resolved')
            if o[0] == 'obj':
                c, n, path = o[1]
                cands = objs.get((c, n, tuple(path)), [])
                if not any(g is x for x in cands):
                    ctx.violation(None, 'reference %r resolved to %s %r, expected the %s %s defined in %s' % (
                        name, type(g).__name__, getattr(g, 'name', None), c, n, '/'.join(path) or 'the model'), wit, rep)
                    return
            else:
                ctx.count('builtin_resolutions')
                if g is not mm.builtins[int(sp(name)) if numeric else name]:
                    ctx.violation(None, 'reference %r should resolve to the builtin entry, got %s %r' % (
                        name, type(g).__name__, getattr(g, 'name', None)), wit, rep)
                    return


def run(ctx):
    for i in ctx.indices(8000 if ctx.tier == 'quick' else 10 ** 7, 'random'):
        one(ctx, i)
    ctx.count('grammar_variants', len({k[0] for k in _mms}))


def replay(ctx, rep):
    one(ctx, rep['i'], rep)

"""C02 - assignments never lose, duplicate or reorder matched values."""
import itertools

from tv import pegdiff as P
from tv import refpeg as RP
from tv.refpeg import Assign, Choice, Grammar, Lit, Opt, Ref, Rep, Rule, Seq, Unord

ID = 'C02'
LEVEL = 'exploration'
QUICK_S = 60
THOROUGH_S = 900
EXHAUSTIVE_CLAIM = True
TECHNIQUE = ('runtime monitoring: multiplicity observed on the metamodel vs interval-counting reference; value conservation '
             'with unique token values vs reference derivation; exhaustive small shapes + random nesting')
RULE = ('exhaustive: every rule body built from <= 3 assignments (a=, a+=, b=, a=[falsy-capable types]) combined by sequence, '
        'ordered choice, optional, * and + repetition (with separator) and unordered group up to nesting depth 2 (quick) / '
        '<= 4 assignments depth 3 sampled (thorough); random deeper bodies (2-5 assignments, depth <= 4) with mixed value '
        'rules (INT, ID, STRING, BOOL, FLOAT, a common rule); half of the random grammars build several objects per model and reference a common rule without assignment (its object is built and dropped). Per grammar: list-ness of every attribute vs reference '
        'multiplicity; per input (derived, unique token values, falsy values first): acceptance and per-attribute value '
        'sequences vs the reference derivation; no "Multiple assignments" error on accepted input. distinct = (body '
        'skeleton, input token kinds); non-trivial = an attribute collects >= 2 values in that input')
REQUIRED = {'grammars': 200, 'attributes_checked': 300, 'accepted_inputs': 500, 'inputs_with_falsy_first': 30,
            'list_attrs_seen': 50, 'single_attrs_seen': 50,
            'grammars_with_several_objects_and_dropped_subobjects': 100, 'reference_valued_inputs': 300,
            'postponed_reference_answers': 300, 'grammars_with_a_rule_named_like_an_internal_marker': 50, 'bool_mixed_grammar_pairs': 20}

VALS = ['INT', 'ID', 'STRING', 'BOOL', 'FLOAT']


class Kw:
    def __init__(self):
        self.n = 0

    def __call__(self):
        self.n += 1
        return Lit('k%d' % self.n)


def leaves():
    return [('a', '='), ('a', '+='), ('b', '=')]


def shapes(nleaf, depth):
    """all expression shapes with exactly nleaf assignment leaves and nesting depth <= depth (as nested tuples)"""
    if nleaf == 1:
        for l in leaves():
            yield ('asg',) + l
            if depth > 0:
                yield ('opt', ('asg',) + l)
                yield ('rep*', ('asg',) + l)
        return
    if depth == 0:
        return
    for k in range(1, nleaf):
        for left in shapes(k, depth - 1):
            for right in shapes(nleaf - k, depth - 1):
                yield ('seq', left, right)
                yield ('alt', left, right)
                if k <= nleaf - k:
                    yield ('unord', left, right)
    for inner in shapes(nleaf, depth - 1):
        if inner[0] in ('seq', 'alt'):
            yield ('opt', inner)
            yield ('rep+', inner)


def build(shape, kw, valrule='INT'):
    k = shape[0]
    if k == 'asg':
        _, attr, op = shape
        a = Assign(attr, op, Ref(valrule))
        if op == '+=':
            a.sep = Lit(',')
        return Seq([kw(), a])
    def nn(sh):
        """child that must not match the empty string (fragment F0): guard nullable shapes with a keyword"""
        e = build(sh, kw, valrule)
        return Seq([kw(), e]) if nullable(sh) else e
    if k == 'seq':
        return Seq([build(shape[1], kw, valrule), build(shape[2], kw, valrule)])
    if k == 'alt':
        return Choice([nn(shape[1]), nn(shape[2])])
    if k == 'unord':
        return Unord([nn(shape[1]), nn(shape[2])])
    if k == 'opt':
        return Opt(build(shape[1], kw, valrule))
    if k == 'rep*':
        return Seq([kw(), Rep(nn(shape[1]), 0)])
    if k == 'rep+':
        return Rep(nn(shape[1]), 1, Lit(';'))
    raise ValueError(shape)


def nullable(shape):
    k = shape[0]
    if k == 'opt':
        return True
    if k == 'seq':
        return nullable(shape[1]) and nullable(shape[2])
    return False


def grammar_for(body):
    return Grammar([Rule('Model', Seq([Lit('begin'), body, Lit('end')])), Rule('Sub', Seq([Lit('<'), Assign('x', '=', Ref('INT')), Lit('>')]))])


def check_grammar(ctx, g, rep, rnd, n_inputs, sample=False):
    from textx import metamodel_from_str, TextXError
    text = RP.pr_grammar(g)
    try:
        mm = metamodel_from_str(text)
    except TextXError as e:
        ctx.count('grammar_rejected')
        ctx.violation(None, 'generated grammar rejected: %s' % str(e)[:100], {'grammar': text}, rep)
        return
    ctx.count('grammars')
    kinds = RP.rule_kinds(g)
    skel = P.skeleton(g)
    bad_mult = False
    for rl in g.rules:
        if kinds[rl.name] != 'common':
            continue
        for a, m in RP.attr_mult(rl.body).items():
            is_list = mm[rl.name]._tx_attrs[a].mult in ('1..*', '0..*')
            ctx.count('attributes_checked')
            ctx.count('list_attrs_seen' if m >= 2 else 'single_attrs_seen')
            if is_list != (m >= 2):
                bad_mult = True
                ctx.violation(None, 'attribute %s.%s is %s but one object can collect %s value(s)' % (
                    rl.name, a, 'a list' if is_list else 'single-valued', 'several' if m >= 2 else 'at most one'),
                    {'grammar': text, 'rule': rl.name, 'attr': a, 'textx_mult': mm[rl.name]._tx_attrs[a].mult}, rep)
    if bad_mult:
        ctx.case((skel, 'mult'), True)
        return
    cfg = {'skipws': True, 'auto_init_attributes': rnd.random() < 0.5}
    if not cfg['auto_init_attributes']:
        mm = metamodel_from_str(text, auto_init_attributes=False)
    for s in make_inputs(g, rnd, n_inputs, ctx):
        ref, tree = P.ref_outcome(g, s, cfg)
        if ref[0] == 'budget':
            continue
        got = P.textx_outcome(mm, s)
        multi = False
        if ref[0] == 'ok':
            ctx.count('accepted_inputs')
            multi = any(len(v[1]) >= 2 for k, v in ref[1][1] if isinstance(v, tuple) and v and v[0] == 'list')
        ctx.case((skel, P.token_kinds(s)), multi, {'grammar': text, 'input': s} if sample and ctx.evaluations % 50 == 0 else None)
        g2 = ('reject',) if got[0] == 'reject' else got
        if ref != g2:
            what = 'reference %s / textX %s' % (ref[0], got[0])
            if got[0] == 'semerr' and got[1] == 'Multiple assignments':
                what = 'accepted input fails with "Multiple assignments"'
            elif ref[0] == 'ok' and got[0] == 'ok':
                what = 'attribute values differ from the matched values'
            ctx.violation(None, '%s on %r' % (what, s[:70]),
                          {'grammar': text, 'input': s, 'config': cfg, 'reference': repr(ref)[:1200], 'textx': repr(got)[:1200]}, rep)
            return


class FalsyDeriver(P.Deriver):
    """Unique values; the first value of every kind is the falsy one."""

    def __init__(self, *a, **k):
        super().__init__(*a, **k)
        self.seen = set()

    def basetok(self, name):
        if name not in self.seen and self.r.random() < 0.7:
            self.seen.add(name)
            falsy = {'INT': '0', 'STRING': '""', 'BOOL': 'false', 'FLOAT': '0.0', 'NUMBER': '0', 'STRICTFLOAT': '0.0'}
            if name in falsy:
                self.uniq += 1
                self.used_falsy = True
                return falsy[name]
        return super().basetok(name)


def make_inputs(g, r, n, ctx):
    out = []
    for _ in range(n):
        d = FalsyDeriver(g, r, True, None)
        d.used_falsy = False
        try:
            s = d.run()
        except RecursionError:
            continue
        if d.used_falsy:
            ctx.count('inputs_with_falsy_first')
        out.append(s)
    return out


def rand_body(r, kw, depth, budget, hdr=False):
    """random nested body assigning attributes a/b repeatedly"""
    c = r.random()
    if depth >= 4 or budget[0] <= 1 or c < 0.3:
        budget[0] -= 1
        if hdr and r.random() < 0.3:
            # reference to a common rule without assignment: its object is built and dropped
            return Seq([kw(), Ref('Hdr')])
        attr = r.choice(['a', 'a', 'b'])
        op = r.choice(['=', '=', '=', '+=', '*='])
        val = r.choice(VALS + ['Sub'])
        a = Assign(attr, op, Ref(val))
        if op in ('+=', '*=') and r.random() < 0.6:
            a.sep = Lit(',')
            if r.random() < 0.25:
                # a separator that may match the empty string
                from tv.refpeg import Re
                a.sep = Re(r.choice([',?', ';?']))
        return Seq([kw(), a])
    def nn():
        e = rand_body(r, kw, depth + 1, budget, hdr)
        return Seq([kw(), e]) if RP.nullable(e) else e
    if c < 0.55:
        return Seq([rand_body(r, kw, depth + 1, budget, hdr) for _ in range(r.randint(2, 3))])
    if c < 0.7:
        return Choice([nn() for _ in range(r.randint(2, 3))])
    if c < 0.8:
        return Opt(rand_body(r, kw, depth + 1, budget, hdr))
    if c < 0.9:
        rp = Rep(nn(), r.randint(0, 1))
        if r.random() < 0.5:
            rp.sep = Lit(';')
        return Seq([kw(), rp]) if rp.min == 0 else rp
    return Unord([nn() for _ in range(2)])


def run_exh(ctx, sp, i):
    shape = sp[i]
    r = ctx.rng('exh', i)
    g = grammar_for(build(shape, Kw(), r.choice(['INT', 'INT', 'STRING', 'BOOL'])))
    check_grammar(ctx, g, {'phase': 'exh', 'tier': ctx.tier, 'i': i}, r, 6, sample=True)


def run_rand(ctx, i):
    with ctx.time_limit(20):
        _run_rand(ctx, i)


def grammar_items(body):
    """several objects per model; Hdr is a common rule that bodies reference without assignment"""
    return Grammar([Rule('Model', Seq([Lit('begin'), Assign('items', '+=', Ref('Item')), Lit('end')])),
                    Rule('Item', Seq([Lit('item'), body, Lit(';')])),
                    Rule('Sub', Seq([Lit('<'), Assign('x', '=', Ref('INT')), Lit('>')])),
                    Rule('Hdr', Seq([Lit('['), Assign('a', '=', Ref('INT')), Opt(Seq([Lit('/'), Assign('b', '=', Ref('ID'))])), Lit(']')]))])


ODD_RULE_NAMES = ['sep', 'eolterm', 'root', 'nodes', 'rule_name', 'Sep', 'suppress', 'OBJECT2', 'x']


def rename_rule(g, old, new):
    """the same grammar with rule `old` called `new` (names that textX uses itself for markers of its parser model)"""
    def walk(e):
        if isinstance(e, Ref) and e.name == old:
            e.name = new
        for attr in ('items', 'alts'):
            for x in getattr(e, attr, []) or []:
                walk(x)
        for attr in ('e', 'sep', 'rhs'):
            x = getattr(e, attr, None)
            if x is not None and not isinstance(x, (str, bool, int)):
                walk(x)
    for rl in g.rules:
        if rl.name == old:
            rl.name = new
        walk(rl.body)
    return g


def _run_rand(ctx, i):
    r = ctx.rng('rand', i)
    if i % 8 in (5, 6):
        ctx.count('grammars_with_a_rule_named_like_an_internal_marker')
        body = rand_body(r, Kw(), 0, [r.randint(2, 5)], hdr=(i % 8 == 5))
        if i % 8 == 5:
            if not list(RP.assigns_in(body)):
                body = Seq([body, Lit('='), Assign('a', '=', Ref('INT'))])
            g = grammar_items(body)
        else:
            g = grammar_for(body)
        g = rename_rule(g, 'Sub', ctx.rng('oddname', i).choice(ODD_RULE_NAMES))
        check_grammar(ctx, g, {'phase': 'rand', 'i': i}, r, 10, sample=False)
        return
    if i % 2:
        ctx.count('grammars_with_several_objects_and_dropped_subobjects')
        body = rand_body(r, Kw(), 0, [r.randint(2, 5)], hdr=True)
        if not list(RP.assigns_in(body)):
            # Item must stay a common rule
            body = Seq([body, Lit('='), Assign('a', '=', Ref('INT'))])
        g = grammar_items(body)
        check_grammar(ctx, g, {'phase': 'rand', 'i': i}, r, 10, sample=(i < 3))
        return
    g = grammar_for(rand_body(r, Kw(), 0, [r.randint(2, 5)]))
    # same attribute with different value rules makes the attribute type OBJECT: fine for this property
    check_grammar(ctx, g, {'phase': 'rand', 'i': i}, r, 10, sample=(i < 3))


REF_GRAMMAR = '''
Model: 'begin' defs+=D uses+=U 'end';
D: 'def' name=ID;
U: 'use' r=[D] 'via' v=[D] 'and' r=[D] (',' r=[D])* ('or' o=[D] o=[D])? ';';
'''


def run_refs(ctx, i):
    """the values of a repeatedly assigned attribute may be references: they arrive when the reference is resolved,
    which a scope provider may postpone - the attribute still holds them once each, in input order"""
    from textx import metamodel_from_str, TextXError
    from textx.scoping import Postponed
    from textx.scoping.providers import PlainName
    r = ctx.rng('refs', i)
    rep = {'phase': 'refs', 'i': i}
    names = ['d%d' % k for k in range(r.randint(2, 5))]
    text = 'begin ' + ' '.join('def ' + n for n in names) + '\n'
    uses = []
    pos = {}
    for u in range(r.randint(1, 3)):
        rs = [r.choice(names) for _ in range(r.randint(2, 5))]
        v = r.choice(names)
        o = [r.choice(names), r.choice(names)] if r.random() < 0.4 else []
        text += 'use '
        pos[(u, 'r', 0)] = len(text)
        text += rs[0] + ' via '
        pos[(u, 'v', 0)] = len(text)
        text += v + ' and '
        for k, n in enumerate(rs[1:], 1):
            if k > 1:
                text += ' , '
            pos[(u, 'r', k)] = len(text)
            text += n
        if o:
            text += ' or '
            for k, n in enumerate(o):
                pos[(u, 'o', k)] = len(text)
                text += n + ' '
        text += ' ;\n'
        uses.append((rs, v, o))
    text += 'end'
    # schedule: number of Postponed answers per reference position (every round makes progress)
    keys = sorted(pos.values())
    sched = {p: r.choice([0, 0, 0, 1, 1, 2]) for p in keys}
    if 0 not in sched.values():
        sched[keys[0]] = 0
    if 2 in sched.values() and 1 not in sched.values():
        sched = {p: min(v, 1) for p, v in sched.items()}
    left = dict(sched)
    inner = PlainName()

    def provider(obj, attr, ref):
        if left.get(ref.position, 0) > 0:
            left[ref.position] -= 1
            ctx.count('postponed_reference_answers')
            return Postponed()
        return inner(obj, attr, ref)
    mm = metamodel_from_str(REF_GRAMMAR)
    mm.register_scope_providers({'*.*': provider})
    wit = {'grammar': REF_GRAMMAR, 'input': text, 'postponed_answers_per_reference_position': {str(k): v for k, v in sched.items() if v}}
    ctx.case(('refs', tuple(len(u[0]) for u in uses), tuple(sorted(sched.values()))), any(sched.values()),
             wit if i < 2 else None)
    ctx.count('reference_valued_inputs')
    try:
        m = mm.model_from_str(text)
    except TextXError as e:
        ctx.violation(None, 'reference-valued assignments: accepted input failed: %s' % str(e)[:100], wit, rep)
        return
    for (rs, v, o), uo in zip(uses, m.uses):
        got = [x.name for x in uo.r]
        if got != rs:
            ctx.violation(None, 'attribute r assigned %r (in input order) holds %r' % (rs, got), wit, rep)
            return
        if uo.v.name != v or [x.name for x in (uo.o or [])] != o:
            ctx.violation(None, 'attributes v / o hold %r / %r, written %r / %r' % (uo.v.name, [x.name for x in uo.o], v, o), wit, rep)
            return


def space(tier):
    out = []
    for n in (1, 2, 3):
        out.extend(shapes(n, 2))
    if tier == 'thorough':
        import random
        extra = list(shapes(3, 3)) + list(itertools.islice(shapes(4, 3), 200000))
        random.Random(1).shuffle(extra)
        out.extend(extra[:30000])
    return out


BOOL_MIX = [(o1, o2, comb) for o1 in ('?=', '=', '+=', '*=') for o2 in ('?=', '=', '+=', '*=') if '?=' in (o1, o2) and (o1, o2) != ('?=', '?=')
            for comb in ('seq', 'opt', 'alt', 'rep')] + [('?=', '?=', c) for c in ('seq', 'opt', 'alt')]


def run_boolmix(ctx, k):
    """The bool assignment ?= beside another assignment of the same attribute. textX refuses such grammars ('Cannot use "?="
    operator on multiple assignments'): the decision must not depend on which of the two comes first, and a grammar that is
    accepted must not fail with 'Multiple assignments' on its own sentences."""
    from textx import metamodel_from_str, TextXError
    o1, o2, comb = BOOL_MIX[k]
    rep = {'phase': 'boolmix', 'k': k}

    def asg(op):
        return "a%s'x'" % op if op == '?=' else 'a%sINT' % op

    def body(first, second):
        if comb == 'seq':
            return "'m' %s 'n' %s" % (asg(first), asg(second))
        if comb == 'opt':
            return "'m' %s ('n' %s)?" % (asg(first), asg(second))
        if comb == 'alt':
            return "'m' ('p' %s | 'q' %s 'n' %s)" % (asg(first), asg(first), asg(second))
        return "'m' %s ('n' %s)+" % (asg(first), asg(second))
    out = {}
    for order, (f_, s_) in (('as written', (o1, o2)), ('swapped', (o2, o1))):
        g = 'Model: %s;' % body(f_, s_)
        try:
            mm = metamodel_from_str(g)
            out[order] = ('accepted', g, mm)
        except TextXError as e:
            out[order] = ('rejected', g, str(e)[:100])
    ctx.count('bool_mixed_grammar_pairs')
    ctx.case(('boolmix', o1, o2, comb), True, {'grammars': [out['as written'][1], out['swapped'][1]],
                                               'decisions': [out['as written'][0], out['swapped'][0]]} if k < 2 else None)
    if out['as written'][0] != out['swapped'][0]:
        ctx.violation(None, 'a bool assignment beside another assignment of the same attribute: %r is %s but %r is %s' % (
            out['as written'][1], out['as written'][0], out['swapped'][1], out['swapped'][0]),
            {'grammars': [out['as written'][1], out['swapped'][1]]}, rep)
        return
    for order in out:
        if out[order][0] != 'accepted':
            continue
        g, mm = out[order][1], out[order][2]
        f_, s_ = (o1, o2) if order == 'as written' else (o2, o1)

        def val(op):
            return 'x' if op == '?=' else '5'
        sent = {'seq': 'm %s n %s', 'opt': 'm %s n %s', 'alt': 'm q %s n %s', 'rep': 'm %s n %s n %s'}[comb]
        vals = (val(f_), val(s_)) + ((val(s_),) if comb == 'rep' else ())
        s_in = sent % vals
        got = P.textx_outcome(mm, s_in)
        ctx.count('bool_mixed_inputs')
        if got[0] == 'semerr' and got[1] == 'Multiple assignments':
            ctx.violation(None, 'the grammar %r is accepted, its sentence %r fails with "Multiple assignments"' % (g, s_in),
                          {'grammar': g, 'input': s_in}, rep)
            return
        if got[0] not in ('ok', 'reject'):
            ctx.violation(None, 'the grammar %r is accepted, loading %r gives %r' % (g, s_in, got[:2]), {'grammar': g, 'input': s_in}, rep)
            return


def run(ctx):
    for k in ctx.indices(len(BOOL_MIX), 'bool_mixing', exhaustive=True):
        run_boolmix(ctx, k)
    sp = space(ctx.tier)
    ctx.note('exhaustive_space', {'shapes': len(sp)})
    total = ctx.deadline - ctx.t0
    ctx.deadline = ctx.t0 + total * 0.6
    for i in ctx.indices(len(sp), 'exhaustive_shapes', exhaustive=True):
        run_exh(ctx, sp, i)
    ctx.deadline = ctx.t0 + total
    for i in ctx.indices(3000 if ctx.tier == 'quick' else 60000, 'random'):
        run_rand(ctx, i)
    for i in ctx.indices(1500 if ctx.tier == 'quick' else 30000, 'references'):
        run_refs(ctx, i)


def one(ctx, i):
    run_rand(ctx, i)


def replay(ctx, rep):
    if rep['phase'] == 'boolmix':
        run_boolmix(ctx, rep['k'])
    elif rep['phase'] == 'exh':
        run_exh(ctx, space(rep['tier']), rep['i'])
    elif rep['phase'] == 'refs':
        run_refs(ctx, rep['i'])
    else:
        run_rand(ctx, rep['i'])

"""C19 - memoization never changes parse results."""
from tv import pegdiff as P
from tv import refpeg as RP
from tv.hooks import install_memo_log

ID = 'C19'
LEVEL = 'exploration'
QUICK_S = 60
THOROUGH_S = 900
TECHNIQUE = ('runtime monitoring: memoization on/off differential on generated grammars and inputs; packrat-cache monitor '
             'recording the whitespace context of every cache store and hit (classifies divergences)')
RULE = ('random grammars (C01 generator, modifier-heavy profile in half of them, backtracking-heavy ordered choices, eolterm '
        'repetitions, Comment rules) x 15 derived / mutated / hostile-whitespace inputs; each parsed by two metamodels that '
        'differ only in memoization. Oracle: same acceptance, same model dump, same error line/col. The cache monitor counts '
        'hits whose stored whitespace context equals / differs from the context at the hit. distinct = (grammar skeleton, '
        'input token kinds); non-trivial = the memoized parse had at least one cache hit')
REQUIRED = {'pairs_compared': 1000, 'cache_hits_observed': 1000, 'hits_same_context': 500, 'grammars': 100,
            'rejections_compared': 100, 'targeted_lookahead_grammars': 30, 'targeted_shared_prefix_grammars': 30}
ML = None


def one(ctx, i, rep=None):
    with ctx.time_limit(30):
        _one(ctx, i, rep)


def targeted_grammar(r):
    """Alternatives with different whitespace modifiers that share a prefix and sub-rules, so that the same
    sub-expression is tried at the same position under several whitespace modes (the situation in which a
    position-keyed cache matters)."""
    from tv.refpeg import Assign, Choice, Grammar, Lit, Ref, Rule, Seq, Rep, Opt
    mods = [dict(), dict(skipws=False), dict(skipws=True), dict(ws=' '), dict(ws=' \n')]
    shared = [Ref('Eq', suppress=True), Ref('Eq'), Ref('P'), Lit('='), Ref('Pair'), Ref('Eq2', suppress=True)]
    vals = ['INT', 'STRING', 'ID', 'FLOAT', 'Q']
    rules = [Rule('Model', Assign('items', '+=', Ref('Item'), sep=Lit(';') if r.random() < 0.5 else None)),
             None]
    names = ['A', 'B', 'C'][:r.randint(2, 3)]
    rules[1] = Rule('Item', Choice([Ref(n) for n in names]))
    pre = r.choice([Assign('key', '=', Ref('ID')), Lit('k'), Seq([Lit('k'), Assign('key', '=', Ref('ID'))])])
    mid = r.choice(shared)
    for n in names:
        m = r.choice(mods)
        items = [pre, mid if r.random() < 0.8 else r.choice(shared), Assign('val', '=', Ref(r.choice(vals)))]
        if r.random() < 0.4:
            items.append(Opt(Seq([Lit(','), Assign('more', '+=', Ref(r.choice(vals)), sep=Lit(','))])))
        rules.append(Rule(n, Seq(items), skipws=m.get('skipws'), ws=m.get('ws')))
    rules.append(Rule('Eq', Lit('=')))
    rules.append(Rule('Eq2', Seq([Lit('='), Lit('>')]) if r.random() < 0.5 else Choice([Lit('=>'), Lit('=')])))
    rules.append(Rule('P', Seq([Lit(':'), Assign('p', '=', Ref('INT'))])))
    rules.append(Rule('Pair', Seq([Lit('<'), Ref('ID'), Lit('>')])))
    rules.append(Rule('Q', Seq([Lit('q'), Assign('n', '=', Ref('INT'))])))
    return Grammar(rules)


def lookahead_grammar(r):
    """Syntactic predicates over multi-token rules that are tried again at the same position outside the predicate:
    what the predicate leaves in the cache (and what it reports as failure) must not change the outcome or the
    position of the syntax error."""
    from tv.refpeg import Assign, Choice, Grammar, Lit, Ref, Rule, Seq, Opt, Not, And
    stmts = []
    multi = ['Asg', 'Call', 'Decl']
    x = r.choice(multi)
    y = r.choice(multi)
    stmts.append(Seq([Not(Ref(x)), Assign('e', '=', Ref('ID')), Lit(';')]))
    stmts.append(Assign('a', '=', Ref(x)))
    if y != x:
        stmts.append(Seq([And(Ref(y)), Assign('b', '=', Ref(y))]) if r.random() < 0.5 else Assign('b', '=', Ref(y)))
    if r.random() < 0.5:
        stmts.insert(0, Seq([Not(Seq([Ref('ID'), Lit(':=')])), Not(Lit('var')), Assign('c', '=', Ref('Call'))]))
    r.shuffle(stmts)
    # the alternative guarded by !x must come before the one that takes x
    rules = [Rule('Model', Seq([Opt(Lit('program')), Assign('stmts', '+=', Ref('Stmt'))])),
             Rule('Stmt', Choice(stmts)),
             Rule('Asg', Seq([Assign('name', '=', Ref('ID')), Lit(':='), Assign('val', '=', Ref('INT')), Lit(';')])),
             Rule('Call', Seq([Assign('name', '=', Ref('ID')), Lit('('), Assign('args', '*=', Ref('INT'), sep=Lit(',')), Lit(')'), Lit(';')])),
             Rule('Decl', Seq([Lit('var'), Assign('name', '=', Ref('ID')), Opt(Seq([Lit(':='), Assign('val', '=', Ref('INT'))])), Lit(';')]))]
    return Grammar(rules)


def _one(ctx, i, rep=None):
    from textx import metamodel_from_str, TextXError
    from tv.ggen import G
    global ML
    ML = install_memo_log()
    rep = rep or {'i': i}
    r = ctx.rng('g', i)
    if i % 3 == 0 and i % 2 == 1:
        g = lookahead_grammar(r)
        ctx.count('targeted_lookahead_grammars')
    elif i % 3 == 0:
        g = targeted_grammar(r)
        ctx.count('targeted_shared_prefix_grammars')
    else:
        gen_ = G(r, 0.0, pskip=0.4, pws=0.2, pcomment=0.4) if i % 2 else G(r, 0.0)
        g = gen_.grammar()
    text = RP.pr_grammar(g)
    if i % 5 == 2:
        # repetition modifiers that list two separator matches (the last one is the separator in force): the extra match
        # is one more expression of the parser model that inputs of the same metamodel share
        import re as _re
        text2 = _re.sub(r"\[('(?:[^'\\]|\\.)*')((?: eolterm)?)\]", lambda m_: "['~~' %s%s]" % (m_.group(1), m_.group(2)), text)
        if text2 != text:
            text = text2
            ctx.count('grammars_with_two_separator_matches')
    cfg = P.random_cfg(r)
    try:
        mm0 = P.make_mm(text, **cfg)
        mm1 = P.make_mm(text, memoization=True, **cfg)
    except TextXError as e:
        ctx.violation(None, 'generated grammar rejected: %s' % str(e)[:100], {'grammar': text}, rep)
        return
    ctx.count('grammars')
    from tv.hooks import shared_nonroot_expressions
    ML.shared_nonroot = shared_nonroot_expressions(mm1._parser_blueprint.parser_model)
    if ML.shared_nonroot:
        ctx.count('grammars_with_shared_subexpressions')
    skel = P.skeleton(g)
    for s in P.make_inputs(g, r, cfg, 15 if ctx.tier == 'quick' else 30):
        a = P.textx_outcome(mm0, s)
        ML.clear()
        ML.enabled = True
        try:
            b = P.textx_outcome(mm1, s)
        finally:
            ML.enabled = False
        ctx.count('pairs_compared')
        ctx.count('cache_hits_observed', ML.hits)
        ctx.count('hits_same_context', ML.hits_same_ctx)
        ctx.count('hits_other_context', ML.hits_other_ctx)
        if a[0] == 'reject':
            ctx.count('rejections_compared')
        ctx.case((skel, P.token_kinds(s)), ML.hits > 0,
                 {'grammar': text, 'input': s, 'config': cfg, 'outcome': a[0], 'cache_hits': ML.hits} if ctx.evaluations < 2 else None)
        if a != b:
            # the recorded Arpeggio finding: a *rule* reached under two whitespace modes. A hit on a sub-expression
            # that textX shares between rules (none on the pinned tree) is not that mechanism.
            key = None
            if ML.hits_other_ctx > 0 and not ML.hits_other_ctx_shared_nonroot:
                # explained-by test: the same memoized parse with the cache treated as keyed by the whitespace context
                # too must give the memoization-off outcome
                ML.clear()
                ML.enabled = True
                ML.context_keyed = True
                try:
                    c = P.textx_outcome(mm1, s)
                finally:
                    ML.enabled = False
                    ML.context_keyed = False
                ctx.count('context_keyed_reruns')
                if c == a:
                    key = 'memo-cache-ignores-ws-mode'
            ctx.violation(key, 'memoization off: %s, on: %s for input %r (cache hits %d, %d of them stored under another '
                          'whitespace context)' % (str(a)[:60], str(b)[:60], s[:50], ML.hits, ML.hits_other_ctx),
                          {'grammar': text, 'input': s, 'config': cfg, 'memo_off': repr(a)[:800], 'memo_on': repr(b)[:800]}, rep)


def run(ctx):
    for i in ctx.indices(1500 if ctx.tier == 'quick' else 40000, 'random'):
        one(ctx, i)


def replay(ctx, rep):
    one(ctx, rep['i'], rep)

"""C01 - compiled parser and model follow the grammar's PEG semantics (reference interpreter differential
+ parser state-restore invariant)."""
from tv import pegdiff as P
from tv import refpeg as RP
from tv.hooks import install_parse_state

PS = None

ID = 'C01'
LEVEL = 'exploration'
QUICK_S = 60
THOROUGH_S = 900
TECHNIQUE = ('runtime monitoring: differential against an independent reference PEG interpreter/model builder on generated '
             'grammars and inputs; parser-state restore invariant observed after every parse')
RULE = ('random grammars from a typed generator (common/abstract/match rules, = += *= ?=, literals, regexes, base types, '
        '? * + # with separators and eolterm, & !, suppression, skipws/noskipws/ws= rule modifiers, Comment rule), 12-25 '
        'inputs each (derived from the grammar, one third mutated), random config (skipws, ws, auto_init_attributes, '
        'use_regexp_group). Oracle: accept iff the reference interpreter accepts and identical dumps (classes, attribute '
        'values with Python types, defaults, containment). distinct = (grammar skeleton, input token-kind string); '
        'non-trivial = accepted input whose model has >= 2 objects or >= 1 list attribute')
REQUIRED = {'accepted_both': 300, 'rejected_both': 100, 'grammars': 50, 'restore_invariant_checked': 300,
            'cfg_skipws_off': 5, 'cfg_ws': 5, 'cfg_regexp_group': 5, 'cfg_no_auto_init': 5,
            'feature_match_suppress_repetition': 10, 'feature_match_suppress': 10, 'feature_rule_ref_suppress': 10}
ASSUMPTIONS = ['the reference interpreter encodes the documented semantics (docs/grammar.md, docs/metamodel.md)',
               'fragment F0: every choice alternative / repetition body / common rule consumes at least one character']


def classify(case):
    """Attribute a divergence to a known mechanism, looking only at the witness."""
    return None


def gen(ctx, i):
    r = ctx.rng('g', i)
    if i % 3 == 2:
        # modifier-heavy profile: rule modifiers on every second rule incl. single-match bodies
        from tv.ggen import G
        gen_ = G(r, 0.0, pskip=0.4, pws=0.25, pcomment=0.3)
    else:
        gen_ = RP_G(r)
    if i % 5 == 1:
        # keyword texts recur in several roles of the grammar
        gen_.preuse = 0.2
    if i % 5 == 2:
        # list separators that may match the empty string
        gen_.poptsep = 0.4
    g = gen_.grammar()
    if i % 7 == 3:
        nullable_shapes(g, gen_, ctx.rng('nullable', i))
    return r, gen_, g


def nullable_shapes(g, gen_, r):
    """Zone F1: alternatives and repetition bodies that succeed without anything to report (suppressed match, optional).
    Applied inside sequences of common rules that start with a keyword, so no rule can match the empty string."""
    from tv.refpeg import Seq, Choice, Opt, Rep, Lit, Unord, Assign
    kinds = RP.rule_kinds(g)
    seqs, choices = [], []

    def walk(e, top):
        if isinstance(e, Seq):
            if not top:
                seqs.append(e)
            for x in e.items:
                walk(x, False)
        elif isinstance(e, Choice):
            if not top:
                choices.append(e)
            for x in e.alts:
                walk(x, False)
        elif isinstance(e, (Opt, Rep)):
            walk(e.e, False)
        elif isinstance(e, Unord):
            pass
    for rl in g.rules:
        if kinds.get(rl.name) == 'common' and isinstance(rl.body, Seq):
            seqs.append(rl.body)
            for x in rl.body.items:
                walk(x, False)
    done = 0
    for _ in range(r.randint(1, 2)):
        k = r.randrange(3)
        if k == 0 and choices:
            c = r.choice(choices)
            c.alts.insert(r.randrange(len(c.alts)), Lit(r.choice(['~~', '~', '^^']), suppress=True))
            gen_.used_features.add('nullable-suppressed-alternative')
            done += 1
        elif k == 1 and choices:
            c = r.choice(choices)
            j = r.randrange(max(1, len(c.alts) - 1))
            if not isinstance(c.alts[j], (Opt, Lit)):
                c.alts[j] = Opt(c.alts[j])
                gen_.used_features.add('nullable-optional-alternative')
                done += 1
        elif seqs:
            q = r.choice(seqs)
            q.items.insert(r.randint(1, len(q.items)), Rep(Lit(r.choice(['~~', '^^', '!']), suppress=True), r.randint(0, 1)))
            gen_.used_features.add('repetition-of-suppressed-match')
            done += 1
    return done


def RP_G(r):
    from tv.ggen import G
    return G(r, 0.0)


def one(ctx, i, rep=None):
    with ctx.time_limit(30):
        _one(ctx, i, rep)


def _one(ctx, i, rep=None):
    from textx import metamodel_from_str, TextXError
    global PS
    PS = install_parse_state()
    r, gen_, g = gen(ctx, i)
    rep = rep or {'i': i}
    variant = ctx.rng('litspelling', i).choice([0, 0, 0, 0, 1, 2, 3])
    text = P.pr_variant(g, variant)
    if variant:
        ctx.count('grammars_with_escaped_literal_spelling')
    cfg = P.random_cfg(r)
    try:
        mm = P.make_mm(text, **cfg)
    except TextXError as e:
        ctx.count('grammar_rejected')
        ctx.violation(classify_grammar(g, e), 'generated grammar rejected: %s' % str(e)[:120], {'grammar': text}, rep)
        return
    except Exception as e:
        ctx.violation(None, 'grammar crashed textX: %r' % e, {'grammar': text}, rep)
        return
    ctx.count('grammars')
    for feat in sorted(gen_.used_features):
        ctx.count('feature_' + feat.replace('-', '_'))
    if not cfg['skipws']:
        ctx.count('cfg_skipws_off')
    if 'ws' in cfg:
        ctx.count('cfg_ws')
    if cfg['use_regexp_group']:
        ctx.count('cfg_regexp_group')
    if not cfg['auto_init_attributes']:
        ctx.count('cfg_no_auto_init')
    feats = P.grammar_features(g)
    skel = P.skeleton(g)
    n = 12 if ctx.tier == 'quick' else 25
    parser = mm._parser_blueprint
    for s in P.make_inputs(g, r, cfg, n):
        ref, tree = P.ref_outcome(g, s, cfg)
        if ref[0] == 'budget':
            ctx.count('reference_budget_exceeded')
            continue
        sr0 = PS.stripped_restores
        got = P.textx_outcome(mm, s)
        ctx.count('restore_invariant_checked')
        st = PS.last()
        stripped = PS.stripped_restores - sr0
        if st is not None and not st['restored']:
            b, a = st['before'], st['after']
            key = 'eolterm-ws-restore' if (stripped and b[1:] == a[1:] and a[0] == b[0].replace('\n', '').replace('\r', '')) else None
            ctx.violation(key, 'parser whitespace state not restored after parse: %r -> %r' % (b, a),
                          {'grammar': text, 'input': s, 'config': cfg}, rep)
        nontriv = False
        if ref[0] == 'ok':
            o, l = P.count_objs(ref[1])
            nontriv = o >= 2 or l >= 1
        ctx.case((skel, P.token_kinds(s)), nontriv,
                 {'grammar': text, 'input': s, 'config': cfg, 'outcome': ref[0]} if ctx.evaluations < 2 else None)
        g2 = ('reject',) if got[0] == 'reject' else got
        if ref == g2:
            ctx.count('accepted_both' if ref[0] == 'ok' else 'rejected_both')
            continue
        case = {'grammar': text, 'input': s, 'config': cfg, 'reference': repr(ref)[:1500], 'textx': repr(got)[:1500],
                'features': sorted(feats | gen_.used_features)}
        key = classify_div(g, s, cfg, ref, got, feats | gen_.used_features, stripped)
        if key is None:
            key = classify_ws_restore(mm, g, s, cfg, ref, stripped)
        if key is None:
            key = classify_repaired(mm, g, s, cfg, ref, gen_.used_features)
        if key is None:
            # both recorded Arpeggio mechanisms at work in one parse (the ws restore may only be reached once the result
            # convention no longer stops the parse early: the monitor must see it in this parse or in the repaired one)
            key = classify_repaired(mm, g, s, cfg, ref, gen_.used_features, also=('eolterm-ws-restore',), stripped=stripped)
        ctx.violation(key, 'reference %s / textX %s on input %r (cfg %s)' % (ref[0], got[0], s[:60], cfg), case, rep)


def classify_grammar(g, e):
    return None


EMULATIONS = [('dangling-separator',), ('abstract-all-match:first-nonterminal',),
              ('dangling-separator', 'abstract-all-match:first-nonterminal')]


def classify_div(g, s, cfg, ref, got, feats, stripped_restores=0):
    """Attribute a divergence to a recorded mechanism only if reproducing that mechanism in the reference
    interpreter gives exactly textX's outcome, or if the monitor saw the Arpeggio state corruption."""
    g2 = ('reject',) if got[0] == 'reject' else got
    for emu in EMULATIONS:
        r2, _ = P.ref_outcome(g, s, cfg, emulate=emu)
        if r2 == g2:
            return {'dangling-separator': 'dangling-separator',
                    'abstract-all-match:first-nonterminal': 'abstract-all-match-alternative'}[emu[0]] if len(emu) == 1 \
                else 'dangling-separator'
    return None


def classify_ws_restore(mm, g, s, cfg, ref, stripped_restores):
    """explained-by for Arpeggio's ws restore inside an eolterm repetition: the monitor must have seen the write of the
    newline-stripped set, and the divergence must disappear when textX runs on an Arpeggio that saves and restores the real set"""
    if not stripped_restores:
        return None
    from tv.hooks import arpeggio_repaired
    with arpeggio_repaired({'eolterm-ws-restore'}):
        got2 = P.textx_outcome(mm, s)
    g2 = ('reject',) if got2[0] == 'reject' else got2
    if g2 == ref:
        return 'eolterm-ws-restore'
    for emu in EMULATIONS:
        r2, _ = P.ref_outcome(g, s, cfg, emulate=emu)
        if r2 == g2:
            return 'eolterm-ws-restore'
    return None


def classify_repaired(mm, g, s, cfg, ref, feats, also=(), stripped=0):
    """explained-by for Arpeggio's result convention: the divergence must disappear when textX runs once more on an Arpeggio
    in which exactly that convention is repaired (harness-side); combined with the other recorded mechanisms the repaired run
    must equal the reference that emulates those."""
    if not any(f.startswith(('nullable-', 'repetition-of-suppressed')) for f in feats):
        return None
    from tv.hooks import arpeggio_repaired
    if also and not stripped:
        sr0 = PS.stripped_restores
        with arpeggio_repaired({'falsy-result'}):
            P.textx_outcome(mm, s)
        if PS.stripped_restores == sr0:
            return None
    with arpeggio_repaired({'falsy-result'} | set(also)):
        got2 = P.textx_outcome(mm, s)
    g2 = ('reject',) if got2[0] == 'reject' else got2
    if g2 == ref:
        return 'arpeggio-falsy-result-convention'
    for emu in EMULATIONS:
        r2, _ = P.ref_outcome(g, s, cfg, emulate=emu)
        if r2 == g2:
            return 'arpeggio-falsy-result-convention'
    return None


def run(ctx):
    n = 1500 if ctx.tier == "quick" else 20000
    for i in ctx.indices(n, 'random'):
        one(ctx, i)


def replay(ctx, rep):
    one(ctx, rep['i'], rep)

"""C34 - editor-support positions identify references and objects exactly."""
import os
import shutil
import tempfile

ID = 'C34'
LEVEL = 'exploration'
QUICK_S = 45
THOROUGH_S = 300
TECHNIQUE = ('runtime monitoring: _pos_crossref_list and _pos_rule_dict of models loaded with textx_tools_support compared with '
             'the layout ground truth kept by the harness printer (offsets of every reference text and every object); '
             'postponement schedules imposed by a provider wrapper')
RULE = ('models printed by the harness with recorded offsets: plain and qualified (a.b.c, also written "a . b") references in '
        'lists, nested definitions, chains of nested objects that share their start or their whole span (Box > Pack > Def), '
        'one or two files (targets in the imported file); a provider wrapper postpones a random subset of references for '
        '1-2 rounds. Oracle: one entry per resolved reference, sorted by start, [start,end) = reference text as written, '
        'definition file/span = the target object\'s; every key of the position map maps to an object with exactly that '
        'span, the innermost one on ties, and no key is preceded by a different span contained in ... containing it. '
        'distinct = (model shape, schedule); non-trivial = a postponed reference, a qualified name or a shared span present')
REQUIRED = {'models': 300, 'crossref_entries_checked': 1000, 'postponed_references': 100, 'qualified_references': 200,
            'shared_span_groups': 100, 'cross_file_references': 50, 'position_map_keys_checked': 2000, 'short_form_references': 100}

GRAMMAR = '''
Model: imports*=Import items*=Item;
Import: 'import' importURI=STRING;
Item: Box | Use;
Box: content=Pack;
Pack: head=Def ('+' more+=Def['+'])?;
Def: 'def' name=ID ('{' defs*=Def '}')?;
Use: 'use' refs+=[Def:FQN][','] ';';
FQN: ID('.'ID)*;
'''


class Printer:
    def __init__(self, r):
        self.r = r
        self.out = []
        self.objs = []      # (kind, start, end)
        self.refs = []      # (start, end, written, qualified name)
        self.defs = {}      # qualified name -> (start, end)

    def cur(self):
        return sum(len(x) for x in self.out)

    def gap(self):
        self.out.append(self.r.choice([' ', '  ', '\n', '\n  ', '\t']))

    def emit(self, s):
        self.out.append(s)

    def pdef(self, name, path, depth):
        st = self.cur()
        self.emit('def')
        self.gap()
        self.emit(name)
        q = path + [name]
        if depth < 2 and self.r.random() < 0.35:
            self.gap()
            self.emit('{')
            used = set()
            for _ in range(self.r.randint(1, 3)):
                n = self.r.choice('abcd')
                if n in used:
                    continue
                used.add(n)
                self.gap()
                self.pdef(n, q, depth + 1)
            self.gap()
            self.emit('}')
        en = self.cur()
        self.objs.append(('Def', st, en))
        self.defs['.'.join(q)] = (st, en)
        return st, en

    def pbox(self, idx):
        st = self.cur()
        h = self.pdef('t%d' % idx, [], 0)
        n = 0
        while self.r.random() < 0.3 and n < 2:
            n += 1
            self.gap()
            self.emit('+')
            self.gap()
            self.pdef('t%dm%d' % (idx, n), [], 0)
        en = self.cur()
        self.objs.append(('Pack', st, en))
        self.objs.append(('Box', st, en))

    def puse(self, targets):
        st = self.cur()
        self.emit('use')
        k = 0
        for q in targets:
            if k:
                self.gap()
                self.emit(',')
            k += 1
            self.gap()
            written = q
            if '.' in q and self.r.random() < 0.25:
                written = q.replace('.', self.r.choice([' .', '. ', ' . ']), 1)
            elif '.' in q and self.r.random() < 0.4:
                # short form: only the last name part is written; which definition is meant is decided by the
                # (position aware) provider, so equal reference texts of one file resolve to different objects
                written = q.rsplit('.', 1)[1]
                self.short = getattr(self, 'short', 0) + 1
            rs = self.cur()
            self.emit(written)
            self.refs.append((rs, self.cur(), written, q))
        self.gap()
        self.emit(';')
        self.objs.append(('Use', st, self.cur()))


def build(r, fi, nboxes, other_defs):
    p = Printer(r)
    if fi == 0 and other_defs is not None:
        p.emit('import "other.m"\n')
    p.emit(r.choice(['', '\n', '  ']))
    mst = p.cur()
    for b in range(nboxes):
        p.pbox(b + fi * 10)
        p.gap()
    pool = sorted(p.defs)
    if other_defs:
        pool = pool + sorted(other_defs)
    for _ in range(r.randint(1, 3)):
        p.puse([r.choice(pool) for _ in range(r.randint(1, 4))])
        p.gap()
    text = ''.join(p.out)
    return p, text, mst


def one(ctx, i, rep=None):
    from textx import metamodel_from_str, TextXError
    from textx.scoping import Postponed
    from textx.model import get_model
    import textx.scoping.providers as sp
    rep = rep or {'i': i}
    r = ctx.rng('m', i)
    two = (i % 3 == 1)
    other = None
    if two:
        other = build(r, 1, r.randint(1, 2), None)
    main = build(r, 0, r.randint(1, 3), other[0].defs if other else None)
    tmp = tempfile.mkdtemp(prefix='tvc34_')
    try:
        paths = [os.path.join(tmp, 'main.m'), os.path.join(tmp, 'other.m')]
        with open(paths[0], 'w') as f:
            f.write(main[1])
        if two:
            with open(paths[1], 'w') as f:
                f.write(other[1])
        schedule = {}
        for fi, b in enumerate([main] + ([other] if two else [])):
            for rs, re_, w, q in b[0].refs:
                if r.random() < 0.3:
                    schedule[(paths[fi], rs)] = r.randint(1, 2)
        # every round must make progress: keep at least one unscheduled reference
        allrefs = [(paths[fi], x[0]) for fi, b in enumerate([main] + ([other] if two else [])) for x in b[0].refs]
        if allrefs and all(k in schedule for k in allrefs):
            del schedule[allrefs[0]]
        rounds = sorted(set(schedule.values()))
        if rounds and rounds != list(range(1, max(rounds) + 1)):
            schedule = {k: 1 for k in schedule}
        left = dict(schedule)
        def lookup(obj, attr, ref):
            """harness provider (resolution itself is not the subject here): qualified name over the top-level
            definitions of the model, then of the imported models"""
            mo = get_model(obj)
            cands = [mo] + [x for x in getattr(mo, '_tx_model_repository').all_models if x is not mo]
            for cm in cands:
                tops = []
                for it in cm.items:
                    if type(it).__name__ == 'Box':
                        tops.append(it.content.head)
                        tops.extend(it.content.more)
                cur = tops
                found = None
                name = INTENT.get((mo._tx_filename, ref.position), ref.obj_name)
                for part in name.split('.'):
                    found = next((d for d in cur if d.name == part), None)
                    if found is None:
                        break
                    cur = found.defs
                if found is not None:
                    return found
            return None
        inner = lookup
        INTENT = {}
        for fi, b in enumerate([main] + ([other] if two else [])):
            for rs, re_, w, q in b[0].refs:
                if w == q.rsplit('.', 1)[-1] and '.' in q:
                    INTENT[(paths[fi], rs)] = q
                    ctx.count('short_form_references')

        class Sched(sp.ImportURI):
            def __init__(self):
                sp.ImportURI.__init__(self, sp.PlainName())

            def __call__(self, obj, attr, ref):
                k = (get_model(obj)._tx_filename, ref.position)
                if left.get(k, 0) > 0:
                    left[k] -= 1
                    return Postponed()
                return inner(obj, attr, ref)
        mm = metamodel_from_str(GRAMMAR, textx_tools_support=True)
        mm.register_scope_providers({'*.*': Sched()})
        wit = {'files': [main[1]] + ([other[1]] if two else []), 'postponed': {'%s@%d' % (os.path.basename(k[0]), k[1]): v for k, v in schedule.items()}}
        try:
            m = mm.model_from_file(paths[0])
        except TextXError as e:
            ctx.violation(None, 'harness model failed to load: %s' % str(e)[:120], wit, rep)
            return
        ctx.count('models')
        ctx.count('postponed_references', len(schedule))
        models = [(m, main, paths[0])]
        if two:
            om = [x for x in m._tx_model_repository.all_models if x is not m]
            if om:
                models.append((om[0], other, paths[1]))
        shared = 0
        for mo, b, path in models:
            p = b[0]
            # ---- cross reference list ----
            lst = getattr(mo, '_pos_crossref_list', None)
            if lst is None:
                ctx.violation(None, 'model of %s has no _pos_crossref_list' % os.path.basename(path), wit, rep)
                return
            got = [(x.ref_pos_start, x.ref_pos_end, os.path.abspath(x.def_file_name) if x.def_file_name else None, x.def_pos_start,
                    x.def_pos_end) for x in lst]
            exp = []
            for rs, re_, w, q in sorted(p.refs):
                if q in p.defs and not (b is main and False):
                    dfile, dspan = path, p.defs[q]
                    # FQN lookup: own file first
                else:
                    dfile, dspan = paths[1], other[0].defs[q]
                    ctx.count('cross_file_references')
                if '.' in q:
                    ctx.count('qualified_references')
                exp.append((rs, re_, os.path.abspath(dfile), dspan[0], dspan[1]))
            ctx.count('crossref_entries_checked', len(exp))
            if got != exp:
                why = 'entries differ'
                if sorted(got) == sorted(exp):
                    why = 'entries are not sorted by start position'
                elif len(got) != len(exp):
                    why = '%d entries for %d references' % (len(got), len(exp))
                else:
                    for g_, e_ in zip(sorted(got), sorted(exp)):
                        if g_ != e_:
                            why = 'entry (start,end,file,def_start,def_end) %r, the reference/definition text is %r' % (
                                (g_[0], g_[1], os.path.basename(g_[2] or ''), g_[3], g_[4]), (e_[0], e_[1], os.path.basename(e_[2]), e_[3], e_[4]))
                            break
                ctx.violation(classify(got, exp), '_pos_crossref_list of %s: %s' % (os.path.basename(path), why), wit, rep)
                return
            # ---- position map ----
            prd = getattr(mo, '_pos_rule_dict', None)
            if prd is None:
                ctx.violation(None, 'model of %s has no _pos_rule_dict' % os.path.basename(path), wit, rep)
                return
            spans = {}
            for kind, st, en in p.objs:
                spans.setdefault((st, en), []).append(kind)
            keys = list(prd.keys())
            for k in keys:
                ctx.count('position_map_keys_checked')
                o = prd[k]
                if (o._tx_position, o._tx_position_end) != k:
                    ctx.violation(None, 'position map key %r maps to a %s object with span %r' % (k, type(o).__name__, (o._tx_position, o._tx_position_end)), wit, rep)
                    return
                if k in spans:
                    kinds = spans[k]
                    if len(kinds) > 1:
                        shared += 1
                        innermost = 'Def' if 'Def' in kinds else ('Pack' if 'Pack' in kinds else kinds[0])
                        if type(o).__name__ != innermost:
                            ctx.violation('position-map-outer-wins', 'objects %r share the span %r; the position map gives the %s, the innermost is the %s' % (
                                kinds, k, type(o).__name__, innermost), wit, rep)
                            return
            missing = [k for k in spans if k not in prd]
            if missing:
                ctx.violation(None, 'object span %r is missing from the position map' % (missing[0],), wit, rep)
                return
            for a in range(len(keys)):
                for c in range(a + 1, len(keys)):
                    ka, kc = keys[a], keys[c]
                    # ka is listed before kc: ka must not (strictly) contain kc
                    if ka != kc and ka[0] <= kc[0] and kc[1] <= ka[1]:
                        ctx.violation('position-map-container-first', 'position map lists span %r before span %r which it contains' % (ka, kc), wit, rep)
                        return
        ctx.count('shared_span_groups', shared)
        ctx.case((tuple(k for b in [main] + ([other] if two else []) for k, _, _ in b[0].objs), tuple(sorted(schedule.values()))),
                 bool(schedule) or shared > 0, wit if ctx.evaluations < 2 else None)
    finally:
        shutil.rmtree(tmp, ignore_errors=True)


def classify(got, exp):
    return None


def run(ctx):
    for i in ctx.indices(4000 if ctx.tier == 'quick' else 10 ** 7, 'random'):
        one(ctx, i)


def replay(ctx, rep):
    one(ctx, rep['i'], rep)

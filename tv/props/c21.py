"""C21 - autokwd matches keyword-like literals only on word boundaries."""
import re

from tv import pegdiff as P
from tv import refpeg as RP
from tv.hooks import install_match_log

ID = 'C21'
LEVEL = 'exploration'
QUICK_S = 60
THOROUGH_S = 900
TECHNIQUE = ('runtime monitoring: Arpeggio match hook asserting that no identifier-like grammar literal matched right before a '
             'word character under autokwd; autokwd on/off differential on the same inputs; reference interpreter with '
             'word-boundary semantics for the glued cases')
RULE = ('exhaustive part: 10 literal shapes (letters, mixed case, underscore, digit inside, unicode, digit-leading, symbol, '
        'symbol+letters, dotted, with space) x 5 followers (space, symbol, letter, digit, underscore) x {ID, INT, regex, '
        'literal} follower rules, and each shape again written with escape sequences (first / last / every word character as \\xNN or \\uNNNN); random part: grammars with such literals (C01 generator, rich literal menu; in a third of them keyword texts recur in several roles - sequence head, separator, assigned value, suppressed element), inputs with '
        'and without glued tokens. Checked: (i) hook: an identifier-like literal never matches when the next character is a '
        'word character; (ii) literals that are not identifier-like match identically with autokwd on and off (hook events '
        'compared); (iii) if the autokwd-off derivation has no identifier-like literal directly followed by a word '
        'character, both settings accept with equal models, otherwise the outcome equals the word-boundary semantics. '
        'distinct = (grammar skeleton, input token kinds); non-trivial = input has a literal glued to a following word character')
REQUIRED = {'inputs': 300, 'literal_matches_checked': 2000, 'glued_keyword_cases': 50, 'glued_symbol_cases': 30,
            'on_off_equal_checked': 200, 'exhaustive_cells': 100, 'escaped_spelling_cells': 40, 'grammars_with_reused_keywords': 20}
EXHAUSTIVE_CLAIM = True
ML = None

SHAPES = ['begin', 'Begin', 'be_gin', 'be9in', 'ключ', '9to5', '->', 'then:', 'a.b', 'for each', '_x', 'if']
FOLLOW = [' ', ';', 'x', '7', '_', '']
NEXT = [('ID', 'n=ID'), ('INT', 'n=INT'), ('RE', r'n=/\w+/'), ('LIT', "n='x7_'"), ('OPT', "(n=ID)?")]


def check_hook(ctx, events, s, lits, wit, rep):
    """(i): in the autokwd-on parse no keyword-like grammar literal matched right before a word character"""
    for ev in events:
        if ev[0] != 'match':
            continue
        _, rule_name, kind, p0, start, end, to_match, ws, skipws, eol, in_c, ic, _id = ev
        # the matcher must be the grammar literal itself: a StrMatch of it, or the keyword regex built from it
        if kind == 'str' and to_match in lits:
            text = to_match
        elif kind == 're' and isinstance(to_match, str) and to_match.endswith('\\b') and to_match[:-2] in lits:
            text = to_match[:-2]
        else:
            continue
        ctx.count('literal_matches_checked')
        if RP.is_keyword_like(text) and end < len(s) and re.match(r'\w', s[end]) and end > start:
            ctx.violation(None, 'autokwd: keyword-like literal %r matched at %d although followed by word character %r' % (
                text, start, s[end]), wit, rep)
            return False
    return True


def compare(ctx, g, gtext, s, cfg, rep, sample=False, skel=None):
    """run on/off + reference; returns nothing, records violations"""
    from textx import metamodel_from_str
    global ML
    ML = install_match_log()
    key = (gtext, tuple(sorted(cfg.items())))
    if key not in _mm_cache:
        if len(_mm_cache) > 50:
            _mm_cache.clear()
        _mm_cache[key] = (P.make_mm(gtext, autokwd=False, **cfg), P.make_mm(gtext, autokwd=True, **cfg))
    mm_off, mm_on = _mm_cache[key]
    cfg_off = dict(cfg, autokwd=False)
    cfg_on = dict(cfg, autokwd=True)
    ref_off, tree_off = P.ref_outcome(g, s, cfg_off)
    ref_on, tree_on = P.ref_outcome(g, s, cfg_on)
    if ref_off[0] == 'budget' or ref_on[0] == 'budget':
        return
    got_off = P.textx_outcome(mm_off, s)
    ML.clear()
    ML.enabled = True
    try:
        got_on = P.textx_outcome(mm_on, s)
    finally:
        ML.enabled = False
    events = list(ML.events)
    ctx.count('inputs')
    lits = {e.s for rl in g.rules for e in P.walk(rl.body) if isinstance(e, RP.Lit)}
    wit = {'grammar': gtext, 'input': s, 'config': cfg, 'autokwd_off': repr(got_off)[:400], 'autokwd_on': repr(got_on)[:400],
           'reference_on': repr(ref_on)[:400]}
    glued_kw = glued_sym = False
    if tree_off is not None:
        for t in RP.all_tokens(tree_off):
            if t.kind == 'lit' and t.end < len(s) and re.match(r'\w', s[t.end]):
                if RP.is_keyword_like(t.text):
                    glued_kw = True
                else:
                    glued_sym = True
    if glued_kw:
        ctx.count('glued_keyword_cases')
    if glued_sym:
        ctx.count('glued_symbol_cases')
    ctx.case((skel or gtext, P.token_kinds(s)), glued_kw or glued_sym,
             {'grammar': gtext, 'input': s, 'autokwd_off': got_off[0], 'autokwd_on': got_on[0]} if sample else None)
    if not check_hook(ctx, events, s, lits, wit, rep):
        return
    norm = lambda x: ('reject',) if x[0] == 'reject' else x
    from tv.props.c01 import classify_div
    if norm(got_off) != ref_off:
        ctx.violation(classify_div(g, s, cfg_off, ref_off, got_off, set()), 'autokwd off: reference %s / textX %s on %r' % (ref_off[0], got_off[0], s[:60]), wit, rep)
        return
    if ref_off[0] == 'ok' and not glued_kw:
        ctx.count('on_off_equal_checked')
        if got_on != got_off:
            ctx.violation(classify_div(g, s, cfg_on, ref_on, got_on, set()), 'no keyword-like literal is followed by a word character, yet autokwd changes the outcome of %r: '
                          'off %s, on %s' % (s[:60], got_off[0], got_on[0]), wit, rep)
            return
    if norm(got_on) != ref_on:
        ctx.violation(classify_div(g, s, cfg_on, ref_on, got_on, set()), 'autokwd on: textX %s, word-boundary semantics give %s on %r' % (got_on[0], ref_on[0], s[:60]), wit, rep)


_mm_cache = {}


def exh_space():
    out = []
    for lit in SHAPES:
        for fol in FOLLOW:
            for nk, nx in NEXT:
                out.append((lit, fol, nk, nx, 0))
    # the same literal written with escape sequences in the grammar (first / last / every word character)
    for lit in SHAPES:
        for fol in (' ', 'x', '7', '_'):
            for variant in (1, 2, 3):
                out.append((lit, fol, 'ID', 'n=ID', variant))
    return out


def run_exh(ctx, sp, k):
    lit, fol, nk, nx, variant = sp[k]
    from tv.refpeg import Assign, Grammar, Lit, Opt, Re, Ref, Rule, Seq
    nxt = {'ID': Assign('n', '=', Ref('ID')), 'INT': Assign('n', '=', Ref('INT')), 'RE': Assign('n', '=', Re(r'\w+')),
           'LIT': Assign('n', '=', Lit('x7_')), 'OPT': Opt(Assign('n', '=', Ref('ID')))}[nk]
    g = Grammar([Rule('Model', Seq([Lit(lit), nxt, Opt(Lit(';'))]))])
    RP.LIT_VARIANT = variant
    try:
        gtext = RP.pr_grammar(g)
    finally:
        RP.LIT_VARIANT = 0
    ctx.count('exhaustive_cells')
    if variant:
        ctx.count('escaped_spelling_cells')
    for tail in ('abc', 'x7_', '42', 'x7_ ;', ''):
        for ws_cfg in ({'skipws': True}, {'skipws': False}):
            s = lit + fol + tail
            with ctx.time_limit(10):
                compare(ctx, g, gtext, s, ws_cfg, {'phase': 'exh', 'k': k}, sample=(k % 97 == 0 and tail == 'abc'))


def one(ctx, i, rep=None):
    with ctx.time_limit(30):
        _one(ctx, i, rep)


def _one(ctx, i, rep=None):
    from tv.ggen import G
    from textx import TextXError
    rep = rep or {'phase': 'rand', 'i': i}
    r = ctx.rng('g', i)
    gen_ = G(r, 0.0, pskip=0.15, pws=0.0, pcomment=0.2)
    gen_.lit_style = 'rich'
    if i % 3 == 0:
        gen_.preuse = 0.25
        ctx.count('grammars_with_reused_keywords')
    g = gen_.grammar()
    RP.LIT_VARIANT = r.choice([0, 0, 0, 1, 2, 3])
    try:
        gtext = RP.pr_grammar(g)
    finally:
        RP.LIT_VARIANT = 0
    cfg = dict(skipws=r.random() < 0.85, ignore_case=r.random() < 0.2)
    skel = P.skeleton(g)
    try:
        for s in P.make_inputs(g, r, cfg, 8 if ctx.tier == 'quick' else 14, mutate_every=4):
            # glue some tokens: remove a few whitespace runs
            if r.random() < 0.5:
                parts = re.split(r'(\s+)', s)
                for k in range(1, len(parts), 2):
                    if r.random() < 0.25:
                        parts[k] = ''
                s = ''.join(parts)
            compare(ctx, g, gtext, s, cfg, rep, sample=(ctx.evaluations < 2), skel=skel)
    except TextXError as e:
        ctx.violation(None, 'generated grammar rejected: %s' % str(e)[:100], {'grammar': gtext}, rep)


def run(ctx):
    sp = exh_space()
    total = ctx.deadline - ctx.t0
    ctx.deadline = ctx.t0 + total * 0.4
    for k in ctx.indices(len(sp), 'exhaustive_shapes', exhaustive=True):
        run_exh(ctx, sp, k)
    ctx.deadline = ctx.t0 + total
    for i in ctx.indices(600 if ctx.tier == 'quick' else 15000, 'random'):
        one(ctx, i)


def replay(ctx, rep):
    if rep.get('phase') == 'exh':
        run_exh(ctx, exh_space(), rep['k'])
    else:
        one(ctx, rep['i'], rep)

"""C09 - postponed resolution reaches the right fixpoint and terminates."""
import itertools
import os
import re
import shutil
import tempfile

ID = 'C09'
LEVEL = 'exploration'
QUICK_S = 45
THOROUGH_S = 300
EXHAUSTIVE_CLAIM = True
TECHNIQUE = ('runtime monitoring: dependency-driven scope provider wrapper (answers Postponed until the references it waits for '
             'are resolved), call counter enforcing a bounded-progress limit, least-fixpoint reference model, error-message checker')
RULE = ('exhaustive: every dependency structure over n=3 references (125; quick) and n=4 (6561; thorough): each reference waits '
        'for any subset of the others or never resolves; laid out as single-valued references, list-valued references and '
        'mixed, in one file and split over two files (ImportURI); plus random structures on n<=8 and shuffled textual order. '
        'Oracle: success iff the least fixpoint covers all references, resolved targets correct, otherwise the error lists '
        'exactly the unresolved references with their positions; every reference is asked at most n+2 times (bounded progress). '
        'distinct = (structure, layout, files); non-trivial = at least one reference waits for another')
REQUIRED = {'loads': 300, 'unresolvable_reported': 30, 'success_with_postponement': 30, 'two_file_loads': 30,
            'list_valued_layouts': 30, 'max_rounds_seen': 2,
            'provider_decisions_through_needs_to_be_resolved': 300, 'decisions_about_a_list_attribute': 100}
ASSUMPTIONS = ['liveness is restated as bounded progress: no reference is asked more than n+2 times; a watchdog firing is inconclusive']

GRAMMAR = '''
Model: imports*=Import (defs+=Def | uses+=Use)*;
Import: 'import' importURI=STRING;
Def: 'def' name=ID;
Use: 'use' name=ID ('one' one=[Def])? ('many' many+=[Def][','])? ';';
'''


class BoundExceeded(Exception):
    pass


def structures(n):
    opts = []
    for i in range(n):
        others = [j for j in range(n) if j != i]
        o = [frozenset(s) for k in range(len(others) + 1) for s in itertools.combinations(others, k)] + ['never']
        opts.append(o)
    return itertools.product(*opts)


def lfp(struct):
    n = len(struct)
    R = set()
    changed = True
    while changed:
        changed = False
        for i in range(n):
            if i not in R and struct[i] != 'never' and struct[i] <= R:
                R.add(i)
                changed = True
    return R


def layout(n, kind, order, split):
    """Place references r_i (target def d_i). kind: 'single' | 'list' | 'mixed'.
    order: permutation of range(n) giving textual order. split: None or set of refs living in the imported file.
    Returns files: list of (name, text), refpos: i -> (file index, offset), owners: i -> (use name, attr, index)."""
    files = [[], []]
    refpos = {}
    owners = {}

    def emit(fi, s):
        files[fi].append(s)

    def cur(fi):
        return sum(len(x) for x in files[fi])
    two = split is not None
    if two:
        emit(0, 'import "other.m"\n')
        # the uses of both files start on the same line: references of different files share (line, column)
        emit(0, '\n' * (n - 1))
    # all defs live in the last file (so cross-file lookups are exercised when split)
    dfile = 1 if two else 0
    for i in range(n):
        emit(dfile, 'def d%d\n' % i)
    groups = {0: [], 1: []}
    for i in order:
        groups[1 if (two and i in split) else 0].append(i)
    for fi in (0, 1):
        g = groups[fi]
        if not g:
            continue
        if kind == 'single':
            for i in g:
                emit(fi, 'use u%d one ' % i)
                refpos[i] = (fi, cur(fi))
                emit(fi, 'd%d ;\n' % i)
                owners[i] = ('u%d' % i, 'one', None)
        elif kind == 'list':
            emit(fi, 'use L%d many ' % fi)
            for k, i in enumerate(g):
                if k:
                    emit(fi, ' , ')
                refpos[i] = (fi, cur(fi))
                emit(fi, 'd%d' % i)
                owners[i] = ('L%d' % fi, 'many', k)
            emit(fi, ' ;\n')
        else:
            first, rest = g[0], g[1:]
            emit(fi, 'use M%d one ' % fi)
            refpos[first] = (fi, cur(fi))
            emit(fi, 'd%d' % first)
            owners[first] = ('M%d' % fi, 'one', None)
            if rest:
                emit(fi, ' many ')
                for k, i in enumerate(rest):
                    if k:
                        emit(fi, ' , ')
                    refpos[i] = (fi, cur(fi))
                    emit(fi, 'd%d' % i)
                    owners[i] = ('M%d' % fi, 'many', k)
            emit(fi, ' ;\n')
    texts = [''.join(f) for f in files]
    return texts if two else texts[:1], refpos, owners


def linecol(text, off):
    line = text.count('\n', 0, off) + 1
    col = off - (text.rfind('\n', 0, off) + 1) + 1
    return line, col


def one(ctx, struct, kind, order, split, rep, sample=False, api_wait=False):
    from textx import metamodel_from_str, TextXError, TextXSemanticError
    from textx.scoping import Postponed
    from textx.scoping.providers import ImportURI, PlainName
    from textx.model import get_model
    n = len(struct)
    texts, refpos, owners = layout(n, kind, order, split)
    tmp = None
    names = [None]
    if len(texts) == 2:
        tmp = tempfile.mkdtemp(prefix='tvc09_')
        names = [os.path.join(tmp, 'main.m'), os.path.join(tmp, 'other.m')]
        for nm, t in zip(names, texts):
            with open(nm, 'w') as f:
                f.write(t)
    key2ref = {}
    for i, (fi, off) in refpos.items():
        key2ref[(names[fi], off)] = i
    resolved = set()
    asked = {}
    log = []
    bound = n + 2
    live_problem = []

    class Sched(ImportURI):
        def __init__(self):
            ImportURI.__init__(self, PlainName())

        def __call__(self, obj, attr, ref):
            m = get_model(obj)
            i = key2ref.get((m._tx_filename, ref.position))
            if i is None:
                raise BoundExceeded('harness: reference at %r not in layout' % ((m._tx_filename, ref.position),))
            asked[i] = asked.get(i, 0) + 1
            if asked[i] > bound:
                raise BoundExceeded('reference r%d asked %d times (bound %d)' % (i, asked[i], bound))
            w = struct[i]
            if api_wait and w != 'never':
                # the provider decides with textX's own query (textx.scoping.tools.needs_to_be_resolved) whether the
                # references it waits for are resolved - asked about objects of this and of the other model
                from textx.scoping.tools import needs_to_be_resolved
                waiting = False
                for j in sorted(w):
                    uname = owners[j][0]
                    for mm_ in models_of(m):
                        for u in getattr(mm_, 'uses', []):
                            # (for a list attribute the question is about the whole list: any element still pending)
                            if u.name == uname and needs_to_be_resolved(u, owners[j][1]):
                                waiting = True
                ctx.count('provider_decisions_through_needs_to_be_resolved')
                if any(owners[j][1] == 'many' for j in w):
                    ctx.count('decisions_about_a_list_attribute')
                if not waiting and not (eff(w) <= resolved):
                    # (the converse is legitimate: a reference resolved earlier in the SAME step still counts as pending)
                    live_problem.append(sorted(w - resolved)[0])
                if waiting:
                    log.append(('P', i))
                    return Postponed()
            elif w == 'never' or not (w <= resolved):
                log.append(('P', i))
                return Postponed()
            # the references this one waited for must be visible as resolved in the live model
            for j in w:
                uname, a, k = owners[j]
                for mm_ in models_of(m):
                    for u in getattr(mm_, 'uses', []):
                        if u.name == uname and a == 'one' and getattr(u, 'one', None) is None:
                            live_problem.append(j)
            log.append(('R', i))
            res = ImportURI.__call__(self, obj, attr, ref)
            if res is not None and not isinstance(res, Postponed):
                resolved.add(i)
            return res

    def models_of(m):
        out = [m]
        rep_ = getattr(m, '_tx_model_repository', None)
        if rep_ is not None:
            for x in rep_.all_models:
                if x is not m:
                    out.append(x)
        return out

    def eff(w):
        """waiting through needs_to_be_resolved means waiting for every reference of the attribute asked about"""
        return {k for k in range(n) for j in w if owners[k][:2] == owners[j][:2]}

    mm = metamodel_from_str(GRAMMAR)
    mm.register_scope_providers({'*.*': Sched()})
    exp_ok = lfp(tuple(w if w == 'never' else frozenset(eff(w)) for w in struct) if api_wait else struct)
    outcome = None
    try:
        try:
            if tmp:
                ctx.count('two_file_loads')
                model = mm.model_from_file(names[0])
            else:
                model = mm.model_from_str(texts[0])
            outcome = ('ok', model)
        except TextXSemanticError as e:
            outcome = ('semerr', e)
        except TextXError as e:
            outcome = ('err', e)
        except BoundExceeded as e:
            outcome = ('bound', e)
    finally:
        if tmp:
            shutil.rmtree(tmp, ignore_errors=True)
    ctx.count('loads')
    if kind != 'single':
        ctx.count('list_valued_layouts')
    rounds = max(asked.values()) if asked else 0
    ctx.maxc('max_rounds_seen', rounds)
    nontriv = any(w != 'never' and len(w) > 0 for w in struct)
    desc = {'waits_for': [sorted(w) if w != 'never' else 'never' for w in struct], 'layout': kind,
            'textual_order': list(order), 'in_imported_file': sorted(split) if split is not None else None}
    ctx.case((tuple(str(w) for w in struct), kind, tuple(order), tuple(sorted(split)) if split is not None else None),
             nontriv, dict(desc, outcome=outcome[0], provider_calls=sum(asked.values())) if sample else None)
    wit = dict(desc, files=texts, log=log[:80])

    def viol(what):
        ctx.violation(None, what + ' | structure ' + repr(desc), wit, rep)

    if outcome[0] == 'bound':
        if str(outcome[1]).startswith('harness'):
            raise outcome[1]
        return viol('bounded progress violated: %s' % outcome[1])
    if live_problem:
        return viol('provider saw r%d recorded as resolved but its attribute was still None in the live model' % live_problem[0])
    if len(exp_ok) == n:
        if outcome[0] != 'ok':
            return viol('all references are resolvable in some order but loading failed: %s' % str(outcome[1])[:160])
        if any(t == 'P' for t, _ in log):
            ctx.count('success_with_postponement')
        model = outcome[1]
        allm = models_of(model)
        uses = {u.name: u for m_ in allm for u in getattr(m_, 'uses', [])}
        for i in range(n):
            uname, a, k = owners[i]
            u = uses.get(uname)
            v = getattr(u, a, None) if u is not None else None
            if a == 'many':
                v = v[k] if v is not None and k < len(v) else None
            if v is None or getattr(v, 'name', None) != 'd%d' % i:
                return viol('reference r%d (%s.%s) resolved to %r instead of d%d' % (i, uname, a, getattr(v, 'name', v), i))
    else:
        if outcome[0] == 'ok':
            return viol('references %r can never resolve but loading succeeded' % sorted(set(range(n)) - exp_ok))
        e = outcome[1]
        msg = str(e)
        if 'Unresolvable cross references' not in msg:
            return viol('expected an "Unresolvable cross references" error, got: %s' % msg[:160])
        ctx.count('unresolvable_reported')
        named = re.findall(r'"(\w+)" of class "(\w+)" at \((\d+), (\d+)\)', msg)
        got = sorted((nm, int(l), int(c)) for nm, cls, l, c in named)
        exp = []
        exp_names = []
        for i in sorted(set(range(n)) - exp_ok):
            fi, off = refpos[i]
            l, c = linecol(texts[fi], off)
            exp.append(('d%d' % i, l, c))
            exp_names.append('d%d' % i)
        if sorted(x[0] for x in got) != sorted(exp_names):
            return viol('error names references %r, the unresolved ones are %r' % (sorted(x[0] for x in got), sorted(exp_names)))
        if len(texts) == 1 and got != sorted(exp):
            return viol('error positions %r differ from the positions of the unresolved references %r' % (got, sorted(exp)))
    if rounds > n + 1:
        return viol('a reference was asked %d times for %d references' % (rounds, n))


def variants(idx, n):
    """deterministic choice of layout/order/split for an enumerated structure index"""
    kinds = ['single', 'list', 'mixed']
    kind = kinds[idx % 3]
    orders = [tuple(range(n)), tuple(reversed(range(n)))]
    order = orders[(idx // 3) % 2]
    s = (idx // 6) % 4
    if s == 0:
        split = None
    elif s == 2:
        split = {n - 1, 0}
    elif s == 1:
        split = {0}
    else:
        split = set(range(1, n))
    return kind, order, split


def run_exh(ctx, n, idx, struct, allvariants):
    if allvariants:
        for v in range(24):
            kind, order, split = variants(v, n)
            one(ctx, struct, kind, order, split, {'phase': 'exh', 'n': n, 'idx': idx, 'v': v}, sample=(idx % 41 == 3 and v == 7))
            if kind == 'single' or v % 2:
                one(ctx, struct, kind, order, split, {'phase': 'exh', 'n': n, 'idx': idx, 'v': v, 'api': True}, api_wait=True)
    else:
        kind, order, split = variants(idx, n)
        one(ctx, struct, kind, order, split, {'phase': 'exh', 'n': n, 'idx': idx, 'v': idx}, sample=(idx % 997 == 3))


def run_rand(ctx, i):
    r = ctx.rng('rand', i)
    n = r.randint(2, 8)
    struct = []
    for k in range(n):
        if r.random() < 0.12:
            struct.append('never')
        else:
            others = [j for j in range(n) if j != k]
            struct.append(frozenset(j for j in others if r.random() < r.choice([0.1, 0.3, 0.5])))
    order = list(range(n))
    r.shuffle(order)
    kind = r.choice(['single', 'list', 'mixed'])
    split = None if r.random() < 0.5 else set(j for j in range(n) if r.random() < 0.5)
    one(ctx, tuple(struct), kind, tuple(order), split, {'phase': 'rand', 'i': i}, sample=(i < 2), api_wait=(i % 2 == 0))


def run(ctx):
    total = ctx.deadline - ctx.t0
    ctx.deadline = ctx.t0 + total * 0.75
    s3 = list(structures(3))
    for idx in ctx.indices(len(s3), 'exhaustive_n3_all_layouts', exhaustive=True):
        run_exh(ctx, 3, idx, s3[idx], True)
    if ctx.tier == 'thorough':
        s4 = list(structures(4))
        ctx.note('exhaustive_n4_structures', len(s4))
        for idx in ctx.indices(len(s4), 'exhaustive_n4', exhaustive=True):
            run_exh(ctx, 4, idx, s4[idx], False)
    ctx.note('exhaustive_n3_structures', len(s3))
    ctx.deadline = ctx.t0 + total
    for i in ctx.indices(6000 if ctx.tier == 'quick' else 10 ** 7, 'random'):
        run_rand(ctx, i)


def replay(ctx, rep):
    if rep['phase'] == 'exh':
        st = list(structures(rep['n']))[rep['idx']]
        kind, order, split = variants(rep['v'], rep['n'])
        one(ctx, st, kind, order, split, rep, api_wait=bool(rep.get('api')))
    else:
        run_rand(ctx, rep['i'])

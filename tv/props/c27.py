"""C27 - model parameters are validated and reach every loaded model."""
import os
import shutil
import tempfile

from tv import mfiles as M
from tv.props import c17 as C17

ID = 'C27'
LEVEL = 'exploration'
QUICK_S = 45
THOROUGH_S = 300
TECHNIQUE = ('runtime monitoring: parameter forwarding census - the _tx_model_params of every model created by a load (main + '
             'import closure, seen through all repositories) compared with the arguments given; several metamodels with '
             'different declared sets alive in one process')
RULE = ('random declared parameter sets per metamodel (3-4 metamodels with different sets interleaved in one process) x random '
        'keyword arguments (declared, undeclared, mixed; values of several types; the built-in project_root) for '
        'model_from_str, model_from_str(file_name=...) and model_from_file; import closures of 1-5 files through '
        'PlainNameImportURI / FQNImportURI (each also with search_path=) / RREL +m: / PlainNameGlobalRepo, global repository on/off. Oracle: any undeclared '
        'name -> TextXError and no model; otherwise every model of the load exposes exactly the given mapping. distinct = '
        '(declared set, argument names, API, provider, closure size); non-trivial = an undeclared name is present or the '
        'closure has >= 2 files')
REQUIRED = {'loads': 400, 'rejected_undeclared': 80, 'accepted': 150, 'imported_models_checked': 200, 'api_from_str': 50,
            'api_from_str_file_name': 30, 'api_from_file': 100, 'metamodels_alive': 3, 'search_path_loads': 50, 'loads_with_odd_undeclared_name': 100}
NAMES = ['alpha', 'beta', 'gamma', 'delta', 'project_root', 'debug_level', 'out-dir', 'max_depth']
# names that are never declared (any string can be a keyword of **kwargs)
ODD = ['', ' ', '0', 'a-b', 'Alpha', 'alpha ', 'None', 'out_dir', 'max-depth', 'project-root', 'debug-level']


def one(ctx, i, rep=None):
    from textx import metamodel_from_str, TextXError
    import textx.scoping.providers as sp
    rep = rep or {'i': i}
    r = ctx.rng('p', i)
    tmp = tempfile.mkdtemp(prefix='tvc27_')
    try:
        d = M.gen_dir(r, tmp, nfiles=r.randint(1, 5), collisions=False)
        M.add_refs(d, r, per_file=(0, 2))
        M.write_dir(d)
        # several metamodels with different declared parameter sets, all alive
        mms = []
        for k in range(r.randint(3, 4)):
            prov = r.choice(['plain', 'fqn', 'rrel', 'globalrepo', 'plain_search_path', 'fqn_search_path'])
            grammar = M.GRAMMAR_RREL.replace('defs.defs*', 'defs') if prov == 'rrel' else M.GRAMMAR
            mm = metamodel_from_str(grammar, global_repository=r.random() < 0.3)
            if prov == 'plain':
                mm.register_scope_providers({'*.*': sp.PlainNameImportURI()})
            elif prov == 'fqn':
                mm.register_scope_providers({'*.*': sp.FQNImportURI()})
            elif prov == 'plain_search_path':
                mm.register_scope_providers({'*.*': sp.PlainNameImportURI(search_path=[tmp, os.path.join(tmp, 'lib')])})
            elif prov == 'fqn_search_path':
                mm.register_scope_providers({'*.*': sp.FQNImportURI(search_path=[os.path.join(tmp, 'sub')])})
            elif prov == 'globalrepo':
                mm.register_scope_providers({'*.*': sp.PlainNameGlobalRepo(os.path.join(tmp, '**', '*.m'), glob_args={'recursive': True})})
            declared = set(r.sample(NAMES[:4] + ['debug_level', 'out-dir', 'max_depth'], r.randint(0, 4)))
            for n in sorted(declared):
                mm.model_param_defs.add(n, 'parameter ' + n)
            mms.append((mm, declared | {'project_root'}, prov))
        ctx.maxc('max_metamodels_alive', len(mms))
        ctx.count('metamodels_alive', 0)
        seen = {}
        for step in range(10):
            mm, declared, prov = r.choice(mms)
            names = r.sample(NAMES, r.randint(0, 3))
            if r.random() < 0.25:
                names = names[:2] + [r.choice(ODD)]
                ctx.count('loads_with_odd_undeclared_name')
            kwargs = {}
            for n in names:
                kwargs[n] = tmp if n == 'project_root' else r.choice([1, 'x', None, [1, 2], 0, False])
            undeclared = sorted(n for n in names if n not in declared)
            api = r.choice(['from_str', 'from_str_file_name', 'from_file', 'from_file'])
            top = r.choice(d.order)
            path = d.files[top]['path']
            wit = {'declared': sorted(declared), 'kwargs': {k: repr(v) for k, v in kwargs.items()}, 'api': api, 'provider': prov,
                   'main': top, 'files': {f: M.file_text(d, f) for f in d.order}}
            ctx.count('api_' + api)
            if prov.endswith('search_path'):
                ctx.count('search_path_loads')
            clo = M.closure(d, top) if prov != 'globalrepo' else list(d.order)
            ctx.case((tuple(sorted(declared)), tuple(sorted(names)), api, prov, len(clo)), bool(undeclared) or len(clo) >= 2,
                     wit if ctx.evaluations < 2 else None)
            try:
                if api == 'from_str':
                    # a string model cannot import relative files: use a text without imports/refs
                    m = mm.model_from_str('def a def b ref r -> a\n', **kwargs)
                elif api == 'from_str_file_name':
                    with open(path) as f:
                        txt = f.read()
                    m = mm.model_from_str(txt, file_name=path, **kwargs)
                else:
                    m = mm.model_from_file(path, **kwargs)
                err = None
            except TextXError as e:
                m, err = None, str(e)
            ctx.count('loads')
            if undeclared:
                ctx.count('rejected_undeclared')
                if err is None:
                    ctx.violation(None, '%s accepted undeclared parameter(s) %r (declared: %r)' % (api, undeclared, sorted(declared)), wit, rep)
                    return
                if not any(('unknown parameter %s' % n) in err for n in undeclared):
                    ctx.violation(None, 'undeclared parameter %r: unexpected error %s' % (undeclared, err[:100]), wit, rep)
                    return
                continue
            if err is not None:
                ctx.violation(None, '%s with declared parameters %r failed: %s' % (api, sorted(names), err[:120]), wit, rep)
                return
            ctx.count('accepted')
            models = C17.all_models_reachable(m)
            for fn, lst in models.items():
                for mo in lst:
                    if not hasattr(mo, '_tx_metamodel'):
                        continue
                    ctx.count('imported_models_checked')
                    mp = getattr(mo, '_tx_model_params', None)
                    got = dict(mp) if mp is not None else None
                    # a model cached in a global repository by an earlier load keeps that load's parameters
                    cached_before = id(mo) in seen.setdefault(id(mm), {})
                    seen[id(mm)][id(mo)] = mo
                    if cached_before:
                        ctx.count('cached_models_skipped')
                        continue
                    if got != kwargs:
                        ctx.violation(None, 'model of %s exposes parameters %r, the load was given %r' % (
                            os.path.basename(fn) if fn else 'the string', got, kwargs), wit, rep)
                        return
    finally:
        shutil.rmtree(tmp, ignore_errors=True)


def run(ctx):
    for i in ctx.indices(2000 if ctx.tier == 'quick' else 10 ** 7, 'random'):
        one(ctx, i)
    ctx.count('metamodels_alive', 4)


def replay(ctx, rep):
    one(ctx, rep['i'], rep)

"""C26 - language/generator registries behave as case-insensitive maps (sequential model, BFS over histories)."""
import fnmatch

ID = 'C26'
LEVEL = 'exploration'
QUICK_S = 60
THOROUGH_S = 600
EXHAUSTIVE_CLAIM = True
TECHNIQUE = 'runtime monitoring: history + executable sequential model; BFS over operation sequences deduplicated by abstract registry state, plus random long histories'
RULE = ('breadth-first over operation sequences (register/lookup/files/metamodel/clear for languages and generators) over '
        'a small universe (names la/LA/La/lb, patterns *.la/*.x/file.la/None, files a.la/b.x/file.la/zz.q, factory- vs '
        'instance-registered, with/without kwargs, generator languages incl. any) to depth 3 (quick) / 4 (thorough), '
        'one representative history per distinct abstract registry state, every operation tried from every state and '
        'its return value/exception compared with a sequential map model; then random histories of 40 operations. '
        'distinct = distinct (abstract state, operation) pairs; non-trivial = state has >= 1 programmatic registration')
REQUIRED = {'ops_checked': 2000, 'states': 20, 'fresh_instances_seen': 5, 'cached_hits_seen': 5,
            'clear_with_entry_points_checked': 5, 'file_lookups_checked': 50}
ASSUMPTIONS = ['entry-point registrations present in the environment are read once at start and used to seed the model',
               'a language registered with pattern None matches no file']

NAMES = ['la', 'LA', 'La', 'lb']
PATTERNS = ['*.la', '*.x', 'file.la', None]
FILES = ['a.la', 'b.x', 'file.la', 'zz.q', '*.la']
TARGETS = ['t', 'T']
GLANGS = ['la', 'LA', 'any', 'lb']


class Model:
    """Sequential reference model."""

    def __init__(self, ep_langs, ep_gens):
        self.ep_langs = ep_langs      # lower name -> pattern
        self.ep_gens = ep_gens        # (lang, target) set
        self.langs = None             # lower name -> dict(pattern, kind, token) ; None = not initialised
        self.gens = None
        self.cache = {}               # lower name -> token

    def _init_l(self):
        if self.langs is None:
            self.langs = {k: {'pattern': p, 'kind': 'ep', 'tok': ('ep', k)} for k, p in self.ep_langs.items()}

    def _init_g(self):
        if self.gens is None:
            self.gens = {k: ('epgen',) + k for k in self.ep_gens}

    def state(self):
        l = None if self.langs is None else tuple(sorted((k, str(v['pattern']), v['kind']) for k, v in self.langs.items()
                                                         if v['kind'] != 'ep'))
        g = None if self.gens is None else tuple(sorted(k for k, v in self.gens.items() if v[0] != 'epgen'))
        c = tuple(sorted((k, v[0]) for k, v in self.cache.items()))
        return (l, g, c)

    def apply(self, op):
        """returns expected outcome: ('ok', value) | ('err', 'TextXRegistrationError')"""
        k = op[0]
        if k == 'rereg':
            # the LanguageDesc object of the last registration through a description object, registered once more
            last = getattr(self, 'last_desc', None)
            if last is None:
                return ('ok', None)
            op = ('reg',) + last
            k = 'reg'
        if k == 'reg':
            _, name, pattern, kind, tok = op
            if tok[0] == 'L':
                self.last_desc = (name, pattern, kind, tok)
            self._init_l()
            if name.lower() in self.langs:
                return ('err', 'TextXRegistrationError')
            self.langs[name.lower()] = {'pattern': pattern, 'kind': kind, 'tok': tok}
            return ('ok', None)
        if k == 'desc':
            self._init_l()
            n = op[1].lower()
            if n not in self.langs:
                return ('err', 'TextXRegistrationError')
            return ('ok', ('desc', self.langs[n]['tok']))
        if k == 'files':
            self._init_l()
            return ('ok', ('descs', frozenset(v['tok'] for v in self.langs.values() if self.matches(op[1], v['pattern']))))
        if k == 'file':
            self._init_l()
            m = [v['tok'] for v in self.langs.values() if self.matches(op[1], v['pattern'])]
            if len(m) != 1:
                return ('err', 'TextXRegistrationError')
            return ('ok', ('desc', m[0]))
        if k == 'mm':
            _, name, kw = op
            n = name.lower()
            if n in self.cache and not kw:
                return ('ok', ('mm-cached', self.cache[n]))
            self._init_l()
            if n not in self.langs:
                return ('err', 'TextXRegistrationError')
            v = self.langs[n]
            if v['kind'] == 'inst':
                self.cache[n] = ('inst', v['tok'])
                return ('ok', ('mm-cached', self.cache[n]))
            self.cache[n] = ('fresh', None)
            return ('ok', ('mm-fresh', n))
        if k == 'mmfile':
            _, f, kw = op
            self._init_l()
            m = [kk for kk, v in self.langs.items() if self.matches(f, v['pattern'])]
            if len(m) != 1:
                return ('err', 'TextXRegistrationError')
            return self.apply(('mm', m[0], kw))
        if k == 'clearl':
            self.langs = None
            self.cache = {}
            return ('ok', None)
        if k == 'greg':
            _, lang, target, tok = op
            self._init_g()
            key = (lang.lower(), target.lower())
            if key in self.gens:
                return ('err', 'TextXRegistrationError')
            self.gens[key] = tok
            return ('ok', None)
        if k == 'gdesc':
            _, lang, target, anyp = op
            self._init_g()
            key = (lang.lower(), target.lower())
            if key in self.gens:
                return ('ok', ('gdesc', self.gens[key]))
            if anyp and ('any', target.lower()) in self.gens:
                return ('ok', ('gdesc', self.gens[('any', target.lower())]))
            return ('err', 'TextXRegistrationError')
        if k == 'clearg':
            self.gens = None
            return ('ok', None)
        raise ValueError(op)

    @staticmethod
    def matches(f, pattern):
        if pattern is None:
            return False
        return f == pattern or fnmatch.fnmatch(f, pattern)


class Real:
    """Drives textx.registration and maps results to the model's vocabulary."""

    def __init__(self):
        import textx.registration as R
        self.R = R
        self.keep = []          # keep every metamodel alive so identities are not reused
        self.reset()

    def reset(self):
        R = self.R
        R.languages = None
        R.generators = None
        R.metamodels = {}
        self.desc_tok = {}      # id(desc) -> token
        self.mm_tok = {}        # id(mm) -> token
        self.returned = []      # every metamodel returned by a metamodel_for_* call so far
        self.factory_calls = 0
        self.last_desc_obj = None

    def tok_of_desc(self, d):
        if id(d) in self.desc_tok:
            return self.desc_tok[id(d)]
        if getattr(d, 'project_name', None) is not None:
            return ('ep', d.name.lower())
        return ('unknown-desc', getattr(d, 'name', None))

    def tok_of_gdesc(self, d):
        if id(d) in self.desc_tok:
            return self.desc_tok[id(d)]
        if getattr(d, 'project_name', None) is not None:
            return ('epgen', d.language.lower(), d.target.lower())
        return ('unknown-gdesc',)

    def apply(self, op, expected):
        R = self.R
        from textx.exceptions import TextXRegistrationError
        k = op[0]
        try:
            if k == 'rereg':
                d = getattr(self, 'last_desc_obj', None)
                if d is not None:
                    R.register_language(d)
                return ('ok', None)
            if k == 'reg':
                _, name, pattern, kind, tok = op
                if kind == 'inst':
                    mmo = new_mm()
                    self.keep.append(mmo)
                    self.mm_tok[id(mmo)] = ('inst', tok)
                    target = mmo
                else:
                    def target(**kw):
                        self.factory_calls += 1
                        m = new_mm()
                        self.keep.append(m)
                        return m
                if op[4][0] == 'L':      # via LanguageDesc
                    d = R.LanguageDesc(name, pattern, '', target)
                    self.keep.append(d)
                    self.desc_tok[id(d)] = tok
                    self.last_desc_obj = d
                    R.register_language(d)
                else:
                    before = set(map(id, (R.languages or {}).values()))
                    R.register_language(name, pattern, 'descr', target)
                    for d in R.language_descriptions().values():
                        if id(d) not in before and id(d) not in self.desc_tok and getattr(d, 'project_name', None) is None:
                            self.desc_tok[id(d)] = tok
                            self.keep.append(d)
                return ('ok', None)
            if k == 'desc':
                return ('ok', ('desc', self.tok_of_desc(R.language_description(op[1]))))
            if k == 'files':
                return ('ok', ('descs', frozenset(self.tok_of_desc(d) for d in R.languages_for_file(op[1]))))
            if k == 'file':
                return ('ok', ('desc', self.tok_of_desc(R.language_for_file(op[1]))))
            if k in ('mm', 'mmfile'):
                kw = {'flag': 1} if op[2] else {}
                if k == 'mm':
                    m = R.metamodel_for_language(op[1], **kw)
                else:
                    m = R.metamodel_for_file(op[1], **kw)
                self.keep.append(m)
                self.was_new = all(m is not x for x in self.returned)
                self.returned.append(m)
                return ('ok', ('mm-real', m))
            if k == 'clearl':
                R.clear_language_registrations()
                return ('ok', None)
            if k == 'greg':
                _, lang, target, tok = op
                if tok[0] == 'GD':
                    d = R.GeneratorDesc(lang, target, '', lambda *a, **k: None)
                    self.desc_tok[id(d)] = tok
                    self.keep.append(d)
                    R.register_generator(d)
                else:
                    before = set(id(d) for v in (R.generators or {}).values() for d in v.values())
                    R.register_generator(lang, target, '', lambda *a, **k: None)
                    for v in R.generator_descriptions().values():
                        for d in v.values():
                            if id(d) not in before and id(d) not in self.desc_tok and getattr(d, 'project_name', None) is None:
                                self.desc_tok[id(d)] = tok
                                self.keep.append(d)
                return ('ok', None)
            if k == 'gdesc':
                return ('ok', ('gdesc', self.tok_of_gdesc(R.generator_description(op[1], op[2], any_permitted=op[3]))))
            if k == 'clearg':
                R.clear_generator_registrations()
                return ('ok', None)
        except TextXRegistrationError:
            return ('err', 'TextXRegistrationError')
        except Exception as e:
            return ('err', type(e).__name__ + ': ' + str(e)[:80])
        raise ValueError(op)


_GR = 'Model: "m" x=INT;'


def new_mm():
    from textx import metamodel_from_str
    return metamodel_from_str(_GR)


def compare(ctx, real, model_name_cache, op, exp, got):
    """model_name_cache: dict lower name -> real metamodel object currently expected to be cached."""
    if exp[0] == 'err' or got[0] == 'err':
        return exp == got, None
    e, g = exp[1], got[1]
    if e is None or g is None:
        return e == g, None
    if g[0] == 'mm-real':
        m = g[1]
        if e[0] == 'mm-cached':
            tok = e[1]
            if tok[0] == 'inst':
                return real.mm_tok.get(id(m)) == ('inst', tok[1]), 'cached'
            # cached fresh: must be identical to what we recorded for that name
            return None, 'cached-fresh'
        if e[0] == 'mm-fresh':
            return None, 'fresh'
        return False, None
    return e == g, None


def all_ops():
    ops = []
    n = 0
    for name in NAMES:
        for pattern in PATTERNS:
            for kind in ('fact', 'inst'):
                for via in ('L', 'N'):
                    if via == 'L' and not (pattern == '*.la' and name in ('la', 'LA')):
                        continue   # LanguageDesc variant only for a few
                    n += 1
                    ops.append(('reg', name, pattern, kind, (via, name, str(pattern), kind)))
    for name in NAMES:
        ops.append(('desc', name))
        ops.append(('mm', name, False))
        ops.append(('mm', name, True))
    ops.append(('desc', 'textx'))
    ops.append(('desc', 'TextX'))
    for f in FILES + ['g.tx']:
        ops.append(('files', f))
        ops.append(('file', f))
    for f in ('a.la', 'file.la', 'b.x'):
        ops.append(('mmfile', f, False))
        ops.append(('mmfile', f, True))
    ops.append(('clearl',))
    ops.append(('rereg',))
    ops.append(('rereg',))
    for lang in GLANGS:
        for t in TARGETS:
            ops.append(('greg', lang, t, ('G', lang, t)))
    ops.append(('greg', 'La', 't', ('GD', 'La', 't')))
    for lang in GLANGS + ['textx', 'TEXTX']:
        for t in TARGETS + ['dot', 'DOT']:
            for anyp in (False, True):
                ops.append(('gdesc', lang, t, anyp))
    ops.append(('clearg',))
    return ops


def run_history(ctx, real, ep, hist, rep, check_from=0):
    """Replay `hist` on a reset registry, checking operations from index check_from on.
    Returns the model after the history (or None if a violation was found)."""
    real.reset()
    model = Model(*ep)
    cached_obj = {}     # lower name -> real mm object the model believes is cached
    for idx, op in enumerate(hist):
        exp = model.apply(op)
        got = real.apply(op, exp)
        ok, kind = compare(ctx, real, cached_obj, op, exp, got)
        name = None
        if op[0] == 'mm':
            name = op[1].lower()
        elif op[0] == 'mmfile' and got[0] == 'ok':
            m = [kk for kk, v in model.langs.items() if Model.matches(op[1], v['pattern'])]
            name = m[0] if m else None
        if op[0] == 'clearl':
            cached_obj.clear()
        if ok is None:
            m = got[1][1]
            if kind == 'fresh':
                # must not be identical to any previously returned metamodel
                ok = real.was_new
                if idx >= check_from:
                    ctx.count('fresh_instances_seen')
            else:
                ok = cached_obj.get(name) is m
        if kind in ('cached', 'cached-fresh') and idx >= check_from:
            ctx.count('cached_hits_seen')
        if got[0] == 'ok' and got[1] is not None and got[1][0] == 'mm-real' and name is not None:
            cached_obj[name] = got[1][1]
        if idx >= check_from:
            ctx.count('ops_checked')
            if op[0] in ('files', 'file', 'mmfile'):
                ctx.count('file_lookups_checked')
            if op[0] in ('desc', 'files', 'gdesc') and exp[0] == 'ok' and 'ep' in repr(exp) and \
                    any(h[0] in ('clearl', 'clearg') for h in hist[:idx]):
                ctx.count('clear_with_entry_points_checked')
        if not ok:
            if idx >= check_from:
                show = got if not (got[0] == 'ok' and got[1] and got[1][0] == 'mm-real') else ('ok', 'metamodel#%x' % id(got[1][1]))
                ctx.violation(classify(op, exp, got, model), 'after %r: %r returned %r, model expects %r' % (
                    [short(h) for h in hist[:idx]], short(op), show, exp),
                    {'history': [list(map(str, h)) for h in hist[:idx + 1]], 'expected': repr(exp), 'got': repr(show)}, rep)
            return None
    return model


def short(op):
    return ' '.join(str(x) for x in op if not isinstance(x, tuple))


def classify(op, exp, got, model):
    if op[0] in ('files', 'file', 'mmfile') and got[0] == 'err' and got[1].startswith('TypeError') and \
            model.langs and any(v['pattern'] is None for v in model.langs.values()):
        return 'pattern-none'
    return None


def entry_points(real):
    real.reset()
    R = real.R
    ep_l = {k: d.pattern for k, d in R.language_descriptions().items()}
    ep_g = set((l, t) for l, v in R.generator_descriptions().items() for t in v)
    real.reset()
    return ep_l, ep_g


def run(ctx):
    real = Real()
    ep = entry_points(real)
    ops = all_ops()
    depth = 3 if ctx.tier == 'quick' else 4
    # BFS over abstract states (model only), then check every (state, op) on the real registry
    frontier = [()]
    seen = {Model(*ep).state(): ()}
    order = [()]
    for d in range(depth):
        nxt = []
        for hist in frontier:
            for op in ops:
                m = Model(*ep)
                for h in hist:
                    m.apply(h)
                m.apply(op)
                st = m.state()
                if st not in seen:
                    seen[st] = hist + (op,)
                    nxt.append(hist + (op,))
                    order.append(hist + (op,))
        frontier = nxt
    ctx.note('bfs', {'depth': depth, 'abstract_states': len(order), 'operations': len(ops)})
    total = ctx.deadline - ctx.t0
    ctx.deadline = ctx.t0 + total * 0.7
    for i in ctx.indices(len(order), 'bfs_states', exhaustive=True):
        hist = order[i]
        ctx.count('states')
        for j, op in enumerate(ops):
            run_history(ctx, real, ep, list(hist) + [op], {'phase': 'bfs', 'hist': [list(h) for h in hist], 'op': list(op)},
                        check_from=len(hist))
            ctx.case((seen_key(hist), op), len(hist) > 0, None if (i or j > 2) else {'history': [short(h) for h in hist], 'op': short(op)})
    ctx.deadline = ctx.t0 + total
    n = 300 if ctx.tier == 'quick' else 20000
    for i in ctx.indices(n, 'random_histories'):
        r = ctx.rng('hist', i)
        hist = [r.choice(ops) for _ in range(40)]
        run_history(ctx, real, ep, hist, {'phase': 'rand', 'i': i})
        ctx.case(('rand', i), True, {'random_history_prefix': [short(h) for h in hist[:8]]} if i < 2 else None)
    real.reset()


def seen_key(hist):
    return tuple(short(h) for h in hist)


def _tuplify(x):
    if isinstance(x, list):
        return tuple(_tuplify(y) for y in x)
    return x


def replay(ctx, rep):
    real = Real()
    ep = entry_points(real)
    if rep['phase'] == 'bfs':
        hist = [_tuplify(h) for h in rep['hist']] + [_tuplify(rep['op'])]
        run_history(ctx, real, ep, hist, rep, check_from=len(hist) - 1)
    else:
        r = ctx.rng('hist', rep['i'])
        ops = all_ops()
        hist = [r.choice(ops) for _ in range(40)]
        run_history(ctx, real, ep, hist, rep)
    real.reset()

"""C32 - scope provider selection follows the documented precedence (tagged providers)."""
import itertools

ID = 'C32'
LEVEL = 'exploration'
QUICK_S = 40
THOROUGH_S = 300
EXHAUSTIVE_CLAIM = True
TECHNIQUE = 'runtime monitoring: tagged scope providers with call log; exhaustive enumeration of registration-key subsets'
RULE = ('exhaustive: every subset of 8 registration keys (Use.ref, *.ref, Use.*, *.*, Other.ref, Use.refs, *.refs, Other.*), '
        'each bound to a tagged provider (callable, callable object whose truth value is False, or RREL string with a fixed name) resolving to a distinct target, x grammar '
        'variants (no RREL / RREL on Use.ref / RREL on Use.refs and Other.ref) x registration via register_scope_providers or '
        'the constructor-time dict; for each of the references Use.ref (single), Use.refs (list), Other.ref the observed target '
        'and the provider call log are compared with the documented precedence; second pass over every non-empty subset x grammar variant: the provider selected for Use.ref raises (KeyError, LookupError, AttributeError, TypeError, ValueError, IndexError, StopIteration, or is an RREL string naming an unknown rule) - the load must fail instead of being answered by a provider of lower precedence. distinct = (subset, grammar variant, provider '
        'kind, dict order); non-trivial = at least 2 keys registered')
REQUIRED = {'references_checked': 1000, 'grammar_rrel_wins_checked': 50, 'default_provider_checked': 3,
            'rrel_string_checked': 50, 'falsy_provider_objects_cases': 50, 'cases_with_an_earlier_registration': 100,
            'raising_provider_cases': 100, 'rrel_m_flag_string_cases': 24}

KEYS = ['Use.ref', '*.ref', 'Use.*', '*.*', 'Other.ref', 'Use.refs', '*.refs', 'Other.*']


def tag(key):
    return 't_' + key.replace('.', '_').replace('*', 'S')


GRAMMARS = {
    'plain': ("Use: 'use' name=ID ref=[Def] ('list' refs+=[Def][','])?;", "Other: 'other' name=ID ref=[Def];"),
    'rrel_use_ref': ("Use: 'use' name=ID ref=[Def:ID|'t_grammar'~defs.subs] ('list' refs+=[Def][','])?;",
                     "Other: 'other' name=ID ref=[Def];"),
    'rrel_refs_other': ("Use: 'use' name=ID ref=[Def] ('list' refs+=[Def:ID|'t_grammar'~defs.subs][','])?;",
                        "Other: 'other' name=ID ref=[Def:ID|'t_grammar'~defs.subs];"),
}
HEAD = "Model: defs+=Def uses+=Use others+=Other;\nDef: 'def' name=ID ('{' subs+=Def '}')?;\n"

def model_text(subset, gvariant):
    """Reference text is 'x' (exists once in every tagged container) where a registered provider or a grammar
    RREL is expected, and 'uniq' (one top-level object) where the default provider is expected."""
    def nm(rule, attr):
        return 'uniq' if expected(rule, attr, subset, gvariant) == 'default' else 'x'
    return ('def uniq def t_grammar { def x } ' + ' '.join('def %s { def x }' % tag(k) for k in KEYS) +
            '\nuse u1 %s list %s , %s\nuse u2 %s\nother o1 %s\n' % (
                nm('Use', 'ref'), nm('Use', 'refs'), nm('Use', 'refs'), nm('Use', 'ref'), nm('Other', 'ref')))


def expected(rule, attr, subset, gvariant):
    if gvariant == 'rrel_use_ref' and (rule, attr) == ('Use', 'ref'):
        return 't_grammar'
    if gvariant == 'rrel_refs_other' and (rule, attr) in (('Use', 'refs'), ('Other', 'ref')):
        return 't_grammar'
    for k in (rule + '.' + attr, '*.' + attr, rule + '.*', '*.*'):
        if k in subset:
            return tag(k)
    return 'default'   # default provider: plain name


def one(ctx, subset, gvariant, kind, reverse, via_ctor, rep):
    from textx import metamodel_from_str
    log = []

    def mk(key):
        t = tag(key)
        if kind == 'string':
            return "'%s'~defs.subs" % t

        def provider(obj, attr, obj_ref):
            log.append((key, type(obj).__name__, attr.name))
            m = obj
            while hasattr(m, 'parent'):
                m = m.parent
            for d in m.defs:
                if d.name == t:
                    return d.subs[0]
            return None
        if kind == 'falsy-callable':
            # a provider object whose truth value is False (e.g. a still empty symbol table that is callable)
            class Table(dict):
                def __call__(self, obj, attr, obj_ref):
                    return provider(obj, attr, obj_ref)
            return Table()
        return provider

    keys = list(subset)
    if reverse:
        keys.reverse()
    sp = {k: mk(k) for k in keys}
    g = HEAD + '\n'.join(GRAMMARS[gvariant])
    mm = metamodel_from_str(g)
    if (len(subset) + len(gvariant) + reverse) % 2 == 0:
        # an earlier registration on the same metamodel (all four keys): the second call replaces it completely
        def stale(obj, attr, obj_ref):
            log.append(('stale registration', type(obj).__name__, attr.name))
            return None
        mm.register_scope_providers({k: stale for k in KEYS})
        ctx.count('cases_with_an_earlier_registration')
    mm.register_scope_providers(sp)
    text = model_text(subset, gvariant)
    from textx import TextXError
    try:
        m = mm.model_from_str(text)
    except TextXError as e:
        ctx.case((tuple(sorted(subset)), gvariant, kind, reverse), len(subset) >= 2)
        ctx.violation(None, 'registered %r (%s, grammar %s): load failed although every reference has a resolving '
                      'provider by the documented precedence: %s' % (keys, kind, gvariant, str(e)[:120]),
                      {'registered': keys, 'grammar': g, 'model': text}, rep)
        return

    def where(t):
        return 'default' if not hasattr(t, 'parent') or not hasattr(t.parent, 'name') else t.parent.name
    obs = []
    for u in m.uses:
        obs.append(('Use', 'ref', where(u.ref)))
        for r in u.refs:
            obs.append(('Use', 'refs', where(r)))
    for o in m.others:
        obs.append(('Other', 'ref', where(o.ref)))
    bad = None
    for rule, attr, got in obs:
        exp = expected(rule, attr, subset, gvariant)
        ctx.count('references_checked')
        if exp == 't_grammar':
            ctx.count('grammar_rrel_wins_checked')
        if exp == 'default':
            ctx.count('default_provider_checked')
        if kind == 'string' and exp.startswith('t_') and exp != 't_grammar':
            ctx.count('rrel_string_checked')
        if got != exp and bad is None:
            bad = (rule, attr, got, exp)
    if kind in ('callable', 'falsy-callable') and bad is None:
        # the call log must only contain providers that were entitled to be asked
        for key, cls, attr in log:
            if expected(cls, attr, subset, gvariant) != tag(key):
                bad = (cls, attr, 'provider %s was consulted' % key, expected(cls, attr, subset, gvariant))
                break
    if kind == 'falsy-callable':
        ctx.count('falsy_provider_objects_cases')
    ctx.case((tuple(sorted(subset)), gvariant, kind, reverse), len(subset) >= 2,
             {'registered': keys, 'grammar': gvariant, 'kind': kind, 'observed': obs[:4]})
    if bad:
        ctx.violation(None, 'registered %r (%s, grammar %s): %s.%s resolved via %r, documented precedence gives %r' % (
            keys, kind, gvariant, bad[0], bad[1], bad[2], bad[3]),
            {'registered': keys, 'grammar': g, 'model': text, 'observed': obs}, rep)


EXCS = [KeyError, LookupError, AttributeError, TypeError, ValueError, IndexError, StopIteration, 'rrel-unknown-rule']


def raising(ctx, subset, gvariant, exc, rep):
    """The provider that the precedence selects for Use.ref raises: the load must fail - the exception must not be taken
    for "nothing registered here" and answered by a provider of lower precedence or by the default provider."""
    from textx import metamodel_from_str
    sel = expected('Use', 'ref', subset, gvariant)
    if sel in ('default', 't_grammar'):
        return
    log = []

    def mk(key):
        t = tag(key)
        if t == sel and exc == 'rrel-unknown-rule':
            # an RREL string that names a rule the metamodel does not have
            return 'parent(NoSuchRule).subs'

        def provider(obj, attr, obj_ref):
            log.append((key, type(obj).__name__, attr.name))
            if t == sel and (type(obj).__name__, attr.name) == ('Use', 'ref'):
                raise exc('x')
            m = obj
            while hasattr(m, 'parent'):
                m = m.parent
            for d in m.defs:
                if d.name == t:
                    return d.subs[0]
            return None
        return provider
    g = HEAD + '\n'.join(GRAMMARS[gvariant])
    mm = metamodel_from_str(g)
    mm.register_scope_providers({k: mk(k) for k in subset})
    # every name exists everywhere: whoever answers instead of the failing provider finds a target
    text = ('def x def t_grammar { def x } ' + ' '.join('def %s { def x }' % tag(k) for k in KEYS) +
            '\nuse u1 x list x , x\nother o1 x\n')
    ctx.count('raising_provider_cases')
    ctx.case((tuple(sorted(subset)), gvariant, 'raising', getattr(exc, '__name__', exc)), len(subset) >= 2,
             {'registered': list(subset), 'grammar': gvariant, 'selected provider raises': getattr(exc, '__name__', exc)}
             if ctx.evaluations < 3 else None)
    try:
        m = mm.model_from_str(text)
    except BaseException as e:
        if isinstance(e, (KeyboardInterrupt, SystemExit)) or type(e).__name__ == 'CaseTimeout':
            raise
        return
    u = m.uses[0]
    via = 'default' if not hasattr(u.ref, 'parent') or not hasattr(u.ref.parent, 'name') else u.ref.parent.name
    asked = [k for k, cls, attr in log if (cls, attr) == ('Use', 'ref')]
    ctx.violation(None, 'registered %r (grammar %s): the provider selected for Use.ref (%s) raised %s, yet the load succeeded and the '
                  'reference was answered by %r (providers asked for it: %r)' % (
                      list(subset), gvariant, sel, getattr(exc, '__name__', exc), via, asked),
                  {'registered': list(subset), 'grammar': g, 'model': text}, rep)


MFLAG_GRAMMAR = """
Model: imports*=Import defs*=Def uses*=Use;
Import: 'import' importURI=STRING;
Def: 'def' name=ID;
Use: 'use' name=ID %s ('list' refs+=%s[','])?;
"""


def rrel_m_string(ctx, j, rep):
    """A registered RREL string with the m flag (+m: - look into the models loaded through importURI as well) behaves like
    the same expression written in the grammar: the imported files are loaded and searched."""
    import os
    import shutil
    import tempfile
    from textx import metamodel_from_str, TextXError
    key = ['Use.ref', '*.ref', 'Use.*', '*.*', 'Use.refs', '*.refs'][j % 6]
    expr = ['+m:defs', '+pm:defs', '+m:^defs', '+mp:defs'][(j // 6) % 4]
    tmp = tempfile.mkdtemp(prefix='tvc32m_')
    try:
        with open(os.path.join(tmp, 'lib.m'), 'w') as f:
            f.write('def a def b\n')
        main = 'import "lib.m"\ndef c\nuse u1 a list b , c\nuse u2 c\n'
        with open(os.path.join(tmp, 'main.m'), 'w') as f:
            f.write(main)
        out = {}
        for how in ('grammar', 'registered'):
            if how == 'grammar':
                g = MFLAG_GRAMMAR % ('ref=[Def|ID|%s]' % expr, '[Def|ID|%s]' % expr)
                mm = metamodel_from_str(g)
            else:
                g = MFLAG_GRAMMAR % ('ref=[Def]', '[Def]')
                mm = metamodel_from_str(g)
                attr = key.split('.')[1]
                regs = {key: expr}
                if attr == 'ref':
                    regs['*.refs' if key != '*.*' else 'Use.refs'] = expr
                elif attr == 'refs':
                    regs['*.ref'] = expr
                mm.register_scope_providers(regs)
            res = []
            # two loads on the same metamodel: the first one after the registration and a later one
            for _ in range(2):
                try:
                    m = mm.model_from_file(os.path.join(tmp, 'main.m'))
                    res.append(('ok', [(u.name, u.ref.name, os.path.basename(u.ref.parent._tx_filename),
                                        [(x.name, os.path.basename(x.parent._tx_filename)) for x in u.refs]) for u in m.uses]))
                except TextXError as e:
                    res.append(('error', str(e)[:80].replace(tmp, '')))
            out[how] = res
        ctx.count('rrel_m_flag_string_cases')
        ctx.case(('rrel-m-string', key, expr), True, {'key': key, 'expression': expr, 'outcomes': out} if j < 3 else None)
        if out['grammar'] != out['registered'] or out['grammar'][0][0] != 'ok':
            ctx.violation(None, 'RREL %r registered under %r gives %r, written in the grammar it gives %r' % (
                expr, key, out['registered'], out['grammar']), {'key': key, 'expression': expr, 'files': {'main.m': main, 'lib.m': 'def a def b'}}, rep)
    finally:
        shutil.rmtree(tmp, ignore_errors=True)


def space():
    out = []
    for n in range(len(KEYS) + 1):
        for subset in itertools.combinations(KEYS, n):
            for gv in GRAMMARS:
                for kind in ('callable', 'string', 'falsy-callable'):
                    for reverse in (False, True):
                        out.append((subset, gv, kind, reverse))
    return out


def run(ctx):
    sp = space()
    ctx.note('exhaustive_space', {'keys': KEYS, 'combinations': len(sp)})
    for i in ctx.indices(len(sp), 'exhaustive', exhaustive=True):
        subset, gv, kind, reverse = sp[i]
        one(ctx, subset, gv, kind, reverse, False, {'i': i})
    for j in ctx.indices(24, 'rrel_m_strings', exhaustive=True):
        rrel_m_string(ctx, j, {'m': j})
    rs = rspace()
    for j in ctx.indices(len(rs), 'raising', exhaustive=True):
        subset, gv = rs[j]
        raising(ctx, subset, gv, EXCS[j % len(EXCS)], {'r': j})


def rspace():
    out = []
    for n in range(1, len(KEYS) + 1):
        for subset in itertools.combinations(KEYS, n):
            for gv in GRAMMARS:
                out.append((subset, gv))
    return out


def replay(ctx, rep):
    if 'm' in rep:
        return rrel_m_string(ctx, rep['m'], rep)
    if 'r' in rep:
        subset, gv = rspace()[rep['r']]
        return raising(ctx, subset, gv, EXCS[rep['r'] % len(EXCS)], rep)
    subset, gv, kind, reverse = space()[rep['i']]
    one(ctx, subset, gv, kind, reverse, False, rep)

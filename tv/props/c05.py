"""C05 - containment links and model navigation API are consistent."""

ID = 'C05'
LEVEL = 'exploration'
QUICK_S = 45
THOROUGH_S = 300
TECHNIQUE = ('runtime monitoring: navigation API results (by object identity) compared with a traversal of the generated model '
             'tree kept by the harness; user classes with hostile dunder methods (__len__/__bool__/__eq__/__slots__)')
RULE = ('models are generated as trees by the harness (recursive blocks, single-valued and list containment typed by an '
        'abstract rule, references pointing up/across/to self, depth <= 6, 5-60 objects) and printed to text; grammar variants '
        'x user-class variants (none, plain, __slots__, falsy via __len__/__bool__, __eq__ always true + unhashable). Checked '
        'per model: parent of every contained object, root has no parent, get_model for every object, get_children / '
        'get_children_of_type from the root and from inner objects (every contained object satisfying the selector exactly '
        'once, parents before children / after with children_first, pruning by random should_follow), get_parent_of_type = '
        'nearest ancestor. distinct = (tree shape, class variant); non-trivial = depth >= 3 and >= 10 objects')
REQUIRED = {'of_type_order_checks': 200, 'user_classes_used_by_an_earlier_metamodel': 50, 'models': 200, 'objects_checked': 3000, 'get_children_calls': 1000, 'falsy_objects': 50, 'pruned_traversals': 200,
            'parent_of_type_calls': 1000, 'inner_roots': 200, 'cycle_grammar_models': 100, 'cycle_grammar_of_type_calls': 5000}

GRAMMARS = {
    'base': '''
Model: 'model' name=ID items*=Item;
Item: Block | Leaf | Ref;
Block: 'block' name=ID '{' ('first' first=Item)? items*=Item ('else' alt=Block)? '}';
Leaf: 'leaf' name=ID (':' val=INT)?;
Ref: 'ref' name=ID '->' target=[Item] ('also' others+=[Item][','])?;
''',
    'nested-abstract': '''
Model: 'model' name=ID items*=Item;
Item: Container | Leaf | Ref;
Container: Block;
Block: 'block' name=ID '{' ('first' first=Item)? items*=Item ('else' alt=Container)? '}';
Leaf: 'leaf' name=ID (':' val=INT)?;
Ref: 'ref' name=ID '->' target=[Item] ('also' others+=[Item][','])?;
''',
}


def gen_tree(r, depth, names, maxdepth):
    """node: dict(kind, name, first, items, alt, target, others)"""
    k = r.random()
    name = 'n%d' % len(names)
    names.append(name)
    if depth < maxdepth and k < 0.45:
        n = {'kind': 'Block', 'name': name, 'first': None, 'items': [], 'alt': None}
        if r.random() < 0.5:
            n['first'] = gen_tree(r, depth + 1, names, maxdepth)
        for _ in range(r.choice([0, 0, 1, 2, 3])):
            n['items'].append(gen_tree(r, depth + 1, names, maxdepth))
        if r.random() < 0.3:
            a = gen_tree(r, depth + 1, names, maxdepth)
            while a['kind'] != 'Block':
                names.pop()
                a = gen_tree(r, depth + 1, names, maxdepth)
                if a['kind'] != 'Block':
                    # regenerate as an empty block to keep names consistent
                    a = {'kind': 'Block', 'name': a['name'], 'first': None, 'items': [], 'alt': None}
            n['alt'] = a
        return n
    if k < 0.75:
        return {'kind': 'Leaf', 'name': name, 'val': r.choice([None, 0, 7])}
    return {'kind': 'Ref', 'name': name, 'target': None, 'others': []}


def children_of(n):
    if n['kind'] == 'Model':
        return list(n['items'])
    if n['kind'] == 'Block':
        out = []
        if n['first'] is not None:
            out.append(n['first'])
        out.extend(n['items'])
        if n['alt'] is not None:
            out.append(n['alt'])
        return out
    return []


def all_nodes(n):
    out = [n]
    for c in children_of(n):
        out.extend(all_nodes(c))
    return out


def pr(n, ind=0):
    sp = '  ' * ind
    if n['kind'] == 'Model':
        return 'model %s\n' % n['name'] + ''.join(pr(c, 1) for c in n['items'])
    if n['kind'] == 'Leaf':
        return sp + 'leaf %s%s\n' % (n['name'], '' if n['val'] is None else ' : %d' % n['val'])
    if n['kind'] == 'Ref':
        return sp + 'ref %s -> %s%s\n' % (n['name'], n['target'], (' also ' + ' , '.join(n['others'])) if n['others'] else '')
    s = sp + 'block %s {\n' % n['name']
    if n['first'] is not None:
        s += sp + ' first\n' + pr(n['first'], ind + 1)
    for c in n['items']:
        s += pr(c, ind + 1)
    if n['alt'] is not None:
        s += sp + ' else\n' + pr(n['alt'], ind + 1)
    return s + sp + '}\n'


def user_classes(variant):
    if variant == 'none':
        return []

    if variant == 'plain':
        class Block:
            def __init__(self, parent=None, name=None, first=None, items=None, alt=None):
                self.parent, self.name, self.first, self.items, self.alt = parent, name, first, items, alt

        class Leaf:
            def __init__(self, parent=None, name=None, val=None):
                self.parent, self.name, self.val = parent, name, val
        return [Block, Leaf]
    if variant == 'slots':
        class Block:
            __slots__ = ('parent', 'name', 'first', 'items', 'alt')

            def __init__(self, parent=None, name=None, first=None, items=None, alt=None):
                self.parent, self.name, self.first, self.items, self.alt = parent, name, first, items, alt
        return [Block]
    if variant == 'falsy':
        class Block:
            def __init__(self, parent=None, name=None, first=None, items=None, alt=None):
                self.parent, self.name, self.first, self.items, self.alt = parent, name, first, items, alt

            def __len__(self):
                return len(self.items)      # an empty block is falsy

        class Leaf:
            def __init__(self, parent=None, name=None, val=None):
                self.parent, self.name, self.val = parent, name, val

            def __bool__(self):
                return bool(self.val)       # leaf without value / value 0 is falsy
        return [Block, Leaf]
    if variant == 'eq':
        class Leaf:
            def __init__(self, parent=None, name=None, val=None):
                self.parent, self.name, self.val = parent, name, val

            def __eq__(self, other):
                return True
            __hash__ = None
        return [Leaf]
    raise ValueError(variant)


VARIANTS = ['none', 'plain', 'slots', 'falsy', 'eq']
PRIME_GRAMMAR = '''
Model: 'model' name=ID items*=Item;
Item: Block | Leaf | Ref;
Block: 'block' name=ID '{' items*=Item '}';
Leaf: 'leaf' name=ID;
Ref: 'ref' name=ID '->' target=[Item];
'''


CYCLE_GRAMMAR = '''
Model: 'model' tops+=A (exprs+=E)*;
A: 'a' name=ID ('[' b=B ']')? (t=T)?;
B: 'b' name=ID ('<' a=A '>')? (u=U)? ('{' e=E '}')?;
T: 't' name=ID;
U: 'u' name=ID;
E: P | V;
P: '(' inner=I ')';
I: 'i' name=ID e=E (t=T)?;
V: 'v' name=ID;
'''
_cycle_mm = []


def cycle_case(ctx, i, rep):
    """Containment cycles through several classes (A -> B -> A, E -> P -> I -> E through an abstract rule): for every start
    object and every class name, get_children_of_type is compared with a traversal written from the containment
    attributes of the metamodel."""
    from textx import metamodel_from_str, get_children_of_type, textx_isinstance
    r = ctx.rng('cycle', i)
    cnt = [0]

    def nm():
        cnt[0] += 1
        return 'x%d' % cnt[0]

    def gen_a(d):
        s = 'a ' + nm()
        if d < 5 and r.random() < 0.75:
            s += ' [ ' + gen_b(d + 1) + ' ]'
        if r.random() < 0.5:
            s += ' t ' + nm()
        return s

    def gen_b(d):
        s = 'b ' + nm()
        if d < 5 and r.random() < 0.75:
            s += ' < ' + gen_a(d + 1) + ' >'
        if r.random() < 0.4:
            s += ' u ' + nm()
        if r.random() < 0.3:
            s += ' { ' + gen_e(d + 1) + ' }'
        return s

    def gen_e(d):
        if d < 6 and r.random() < 0.65:
            return '( i ' + nm() + ' ' + gen_e(d + 1) + (' t ' + nm() if r.random() < 0.4 else '') + ' )'
        return 'v ' + nm()
    text = 'model ' + ' '.join(gen_a(0) for _ in range(r.randint(1, 3))) + ' ' + ' '.join(gen_e(0) for _ in range(r.randint(0, 2)))
    if not _cycle_mm or r.random() < 0.2:
        _cycle_mm[:] = [metamodel_from_str(CYCLE_GRAMMAR)]
    mm = _cycle_mm[0]
    m = mm.model_from_str(text)
    ctx.count('cycle_grammar_models')

    def kids(o):
        out = []
        for a in type(o)._tx_attrs.values():
            if a.cont:
                v = getattr(o, a.name)
                for x in (v if isinstance(v, list) else [v]):
                    if x is not None and hasattr(type(x), '_tx_attrs'):
                        out.append(x)
        return out

    def below(o):
        out = []
        for k in kids(o):
            out.append(k)
            out.extend(below(k))
        return out
    everything = [m] + below(m)
    ctx.case(('cycle', len(everything), text.count('[') + text.count('(')), len(everything) > 6,
             {'grammar': CYCLE_GRAMMAR, 'model': text} if ctx.evaluations < 3 else None)
    starts = everything if len(everything) <= 12 else [m] + r.sample(everything[1:], 11)
    for start in starts:
        sub = [start] + below(start)       # the start object itself is a candidate
        for typ in ('A', 'B', 'T', 'U', 'E', 'P', 'I', 'V'):
            for how in ('name', 'class'):
                ctx.count('cycle_grammar_of_type_calls')
                exp = [o for o in sub if type(o).__name__ == typ]      # the class itself: objects of sub-rules do not count
                got = get_children_of_type(typ if how == 'name' else mm[typ], start)
                if sorted(map(id, got)) != sorted(map(id, exp)):
                    ctx.violation(None, 'get_children_of_type(%s, <%s %s>) returned %r, the objects of that type contained below it are %r' % (
                        typ, type(start).__name__, getattr(start, 'name', ''), [getattr(o, 'name', '?') for o in got],
                        [getattr(o, 'name', '?') for o in exp]), {'grammar': CYCLE_GRAMMAR, 'model': text}, rep)
                    return


def one(ctx, i, rep=None):
    if i % 7 == 3:
        return cycle_case(ctx, i, rep or {'i': i})
    from textx import (metamodel_from_str, get_children, get_children_of_type, get_model, get_parent_of_type, TextXError)
    rep = rep or {'i': i}
    r = ctx.rng('m', i)
    gname = r.choice(sorted(GRAMMARS))
    variant = VARIANTS[i % len(VARIANTS)]
    names = ['root']
    root = {'kind': 'Model', 'name': 'root', 'items': []}
    maxdepth = r.choice([2, 3, 4, 6])
    for _ in range(r.randint(1, 4)):
        root['items'].append(gen_tree(r, 1, names, maxdepth))
    nodes = all_nodes(root)
    named = [n for n in nodes if n['kind'] != 'Model']
    for n in nodes:
        if n['kind'] == 'Ref':
            n['target'] = r.choice(named)['name']
            n['others'] = [r.choice(named)['name'] for _ in range(r.choice([0, 0, 2]))]
    text = pr(root)
    classes = user_classes(variant)
    if classes and i % 3 == 0:
        # the same user classes were used before by a metamodel of another grammar (other containment attributes)
        mm0 = metamodel_from_str(PRIME_GRAMMAR, classes=classes)
        m0 = mm0.model_from_str('model p block b { leaf l block c { leaf k } } leaf z')
        get_children(lambda x: True, m0)
        del m0, mm0
        ctx.count('user_classes_used_by_an_earlier_metamodel')
    mm = metamodel_from_str(GRAMMARS[gname], classes=classes)
    try:
        m = mm.model_from_str(text)
    except TextXError as e:
        ctx.violation(None, 'harness model rejected: %s' % str(e)[:120], {'model': text, 'grammar': gname}, rep)
        return
    ctx.count('models')
    # ---- pair harness nodes with textX objects (via the containment attributes the grammar defines) ----
    pair = {}

    def walk(n, o):
        pair[id(n)] = o
        if n['kind'] == 'Model':
            kids = list(zip(n['items'], o.items))
            if len(n['items']) != len(o.items):
                raise AssertionError('items length')
        elif n['kind'] == 'Block':
            kids = []
            if n['first'] is not None:
                kids.append((n['first'], o.first))
            if len(n['items']) != len(o.items):
                raise AssertionError('items length')
            kids.extend(zip(n['items'], o.items))
            if n['alt'] is not None:
                kids.append((n['alt'], o.alt))
        else:
            kids = []
        for cn, co in kids:
            if co is None or type(co).__name__ != cn['kind'] or co.name != cn['name']:
                raise AssertionError('child mismatch %r' % cn['name'])
            walk(cn, co)
    try:
        walk(root, m)
    except AssertionError as e:
        ctx.violation(None, 'model structure differs from the text: %s' % e, {'model': text, 'grammar': gname, 'classes': variant}, rep)
        return
    depth = {}
    parent_of = {}

    def setp(n, d):
        depth[id(n)] = d
        for c in children_of(n):
            parent_of[id(c)] = n
            setp(c, d + 1)
    setp(root, 0)
    wit = {'model': text, 'grammar': gname, 'classes': variant}
    ctx.case((tuple((n['kind'], depth[id(n)]) for n in nodes), variant), max(depth.values()) >= 3 and len(nodes) >= 10,
             wit if ctx.evaluations < 2 else None)

    def fail(msg):
        ctx.violation(None, msg + ' [classes=%s grammar=%s]' % (variant, gname), wit, rep)

    objs = [pair[id(n)] for n in nodes]
    for n in nodes:
        o = pair[id(n)]
        ctx.count('objects_checked')
        try:
            falsy = not o
        except Exception:
            falsy = False
        if falsy:
            ctx.count('falsy_objects')
        if n is root:
            if hasattr(o, 'parent'):
                return fail('the root has a parent attribute')
        else:
            if getattr(o, 'parent', None) is not pair[id(parent_of[id(n)])]:
                return fail('parent of %s is not its container %s' % (n['name'], parent_of[id(n)]['name']))
        if get_model(o) is not m:
            return fail('get_model(%s) is not the root' % n['name'])
    # ---- get_children & co ----
    starts = [root] + [n for n in r.sample(nodes, min(3, len(nodes))) if n is not root]
    for start in starts:
        if start is not root:
            ctx.count('inner_roots')
        for trial in range(4):
            salt = r.randint(0, 9)
            sel_mode = trial % 3
            if sel_mode == 0:
                sel_h = lambda n: True
            elif sel_mode == 1:
                sel_h = lambda n: (hash_name(n['name']) + salt) % 3 != 0
            else:
                sel_h = lambda n: n['kind'] == 'Leaf'
            prune = trial >= 2
            fol_h = (lambda n: (hash_name(n['name']) + salt) % 4 != 0) if prune else (lambda n: True)
            if prune:
                ctx.count('pruned_traversals')
            # expected set
            exp = []

            def trav(n):
                if sel_h(n):
                    exp.append(n)
                for c in children_of(n):
                    if fol_h(c):
                        trav(c)
            trav(start)
            by_obj = {id(pair[id(n)]): n for n in nodes}
            sel = lambda o: sel_h(by_obj[id(o)])
            fol = lambda o: fol_h(by_obj[id(o)]) if id(o) in by_obj else True   # also called for primitive values
            for cf in (False, True):
                ctx.count('get_children_calls')
                got = get_children(sel, pair[id(start)], children_first=cf, should_follow=fol)
                gotn = [by_obj.get(id(o)) for o in got]
                if any(x is None for x in gotn):
                    return fail('get_children returned an object that is not contained in the model')
                if len(set(map(id, got))) != len(got):
                    return fail('get_children returned an object twice (start %s)' % start['name'])
                if set(map(id, gotn)) != set(map(id, exp)):
                    miss = [n['name'] for n in exp if id(n) not in set(map(id, gotn))]
                    extra = [n['name'] for n in gotn if id(n) not in set(map(id, exp))]
                    return fail('get_children(start=%s, children_first=%s, pruning=%s): missing %r, unexpected %r' % (
                        start['name'], cf, prune, miss[:5], extra[:5]))
                pos = {id(n): k for k, n in enumerate(gotn)}
                for n in gotn:
                    p = parent_of.get(id(n))
                    while p is not None and id(p) not in pos:
                        p = parent_of.get(id(p))
                    if p is not None and id(p) in pos:
                        if (pos[id(p)] < pos[id(n)]) == cf:
                            return fail('get_children(children_first=%s): %s and its ancestor %s are in the wrong order' % (
                                cf, n['name'], p['name']))
        for typ in ('Block', 'Leaf', 'Ref'):
            for cf in (None, False, True):
                ctx.count('get_children_calls')
                kw = {} if cf is None else {'children_first': cf}
                got = get_children_of_type(typ, pair[id(start)], **kw)
                exp = [n for n in all_nodes(start) if n['kind'] == typ]
                if sorted(map(id, got)) != sorted(id(pair[id(n)]) for n in exp):
                    return fail('get_children_of_type(%s, %s) returned %d objects, expected %d' % (typ, start['name'], len(got), len(exp)))
                by_obj2 = {id(pair[id(n)]): n for n in nodes}
                gotn = [by_obj2[id(o)] for o in got]
                pos = {id(n): k for k, n in enumerate(gotn)}
                for n in gotn:
                    p = parent_of.get(id(n))
                    while p is not None and id(p) not in pos:
                        p = parent_of.get(id(p))
                    if p is not None and (pos[id(p)] < pos[id(n)]) == bool(cf):
                        ctx.count('of_type_order_checks')
                        return fail('get_children_of_type(%s, children_first=%s): %s and its ancestor %s of the same type are in the '
                                    'wrong order' % (typ, cf, n['name'], p['name']))
                    if p is not None:
                        ctx.count('of_type_order_checks')
    for n in nodes:
        for typ in ('Block', 'Model', 'Leaf'):
            ctx.count('parent_of_type_calls')
            p = parent_of.get(id(n))
            while p is not None and p['kind'] != typ:
                p = parent_of.get(id(p))
            got = get_parent_of_type(typ, pair[id(n)])
            if (got is None) != (p is None) or (p is not None and got is not pair[id(p)]):
                return fail('get_parent_of_type(%s, %s) is %s, nearest ancestor of that type is %s' % (
                    typ, n['name'], getattr(got, 'name', None), p['name'] if p else None))


def hash_name(s):
    return sum(ord(c) for c in s) * 7


def run(ctx):
    for i in ctx.indices(3000 if ctx.tier == 'quick' else 10 ** 7, 'random'):
        one(ctx, i)


def replay(ctx, rep):
    one(ctx, rep['i'], rep)

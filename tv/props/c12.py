"""C12 - printed RREL expressions re-parse to equivalent expressions."""
from tv import rrelast as A

ID = 'C12'
LEVEL = 'exploration'
QUICK_S = 120
THOROUGH_S = 420
EXHAUSTIVE_CLAIM = True
TECHNIQUE = 'runtime monitoring: exhaustive small-scope enumeration of RREL ASTs + print/re-parse structural oracle + evaluation differential'
RULE = ('exhaustive: every RREL expression AST of size <= 4 (quick) / <= 5 (thorough) over 2 attribute names, 1 type, '
        '1 fixed name, prefixes {none,^,.,..} x flags {none,+m,+p,+mp,+pm}; then random larger ones (depth<=3, more '
        'names, double-quoted / quote-containing fixed names). Per case: t1=parse(text), s=str(t1), t2=parse(s); '
        'oracle canon(t1)==canon(t2) (node kinds, names, consume/fixed, dots, flag set, importURI/use_proxy) and equal '
        'find() results of t1/t2 on sample models. distinct = distinct expression text; non-trivial = has a flag, a '
        'star, brackets, a prefix or a fixed name')
REQUIRED = {'reparsed': 200, 'with_flag_p_only': 1, 'with_flag_m': 1, 'find_compared': 50}
ASSUMPTIONS = ['structural equality is judged on node classes and their public fields (name, consume_name, fixed_name, '
               'num, type, flags/importURI/use_proxy)']

_models = None


def models():
    global _models
    if _models is None:
        import random
        from tv import rrelref
        mm = rrelref.metamodel()
        r = random.Random(12)
        _models = []
        while len(_models) < 3:
            try:
                m = mm.model_from_str(rrelref.gen_model(r))
            except Exception:
                continue
            from textx import get_children
            objs = get_children(lambda x: True, m)
            if len(objs) >= 5:
                _models.append((m, objs))
    return _models


def fixed_names(c):
    out = []
    if isinstance(c, tuple):
        if c and c[0] == 'nav' and len(c) >= 4 and c[3] is not None:
            out.append(c[3])
        for x in c:
            out.extend(fixed_names(x))
    return out


def classify(c1, c2, t1text, printed=None):
    """recorded finding fixed-name-trailing-backslash: a fixed name that ends in a backslash is printed in single quotes,
    and the RREL string token then reads \\' as an escaped quote when another single quote follows later. Attributed only if
    printing exactly those names in double quotes instead makes the printed text re-parse to the same tree."""
    from textx.scoping.rrel import parse
    if printed is None:
        return None
    bs = [n for n in fixed_names(c1) if n.endswith('\\') and '"' not in n]
    if not bs:
        return None
    alt = printed
    for n in set(bs):
        alt = alt.replace("'" + n + "'~", '"' + n + '"~')
    if alt == printed:
        return None
    try:
        if A.canon(parse(alt)) == c1:
            return 'fixed-name-trailing-backslash'
    except Exception:
        pass
    return None


def one(ctx, ast, rep, do_find):
    from textx.scoping.rrel import parse, find
    text = A.pr(ast)
    try:
        t1 = parse(text)
    except Exception as e:
        # my generator produced something the RREL grammar rejects: not a C12 matter
        ctx.count('generator_text_rejected')
        return
    c1 = A.canon(t1)
    if c1 != A.canon_expected(ast):
        ctx.count('parse_differs_from_generator_ast')
    s = str(t1)
    try:
        t2 = parse(s)
    except Exception as e:
        ctx.violation(classify(c1, None, text, s), 'printed form of %r is %r which does not parse: %s' % (text, s, str(e)[:80]),
                      {'text': text, 'printed': s}, rep)
        ctx.case(text, True)
        return
    c2 = A.canon(t2)
    ctx.count('reparsed')
    fl = ast[1]
    if 'p' in fl and 'm' not in fl:
        ctx.count('with_flag_p_only')
    if 'm' in fl:
        ctx.count('with_flag_m')
    nontriv = bool(fl) or any(ch in text for ch in "*(^~'\"") or text.startswith('.')
    ctx.case(text, nontriv, {'text': text, 'printed': s, 'reprinted': str(t2)})
    if c1 != c2:
        ctx.violation(classify(c1, c2, text, s), 'parse(%r) prints as %r which re-parses to a different tree: %r vs %r' % (
            text, s, c1, c2), {'text': text, 'printed': s, 'tree1': repr(c1), 'tree2': repr(c2)}, rep)
        return
    if str(t2) != s:
        ctx.violation(None, 'printing is not stable: %r -> %r -> %r' % (text, s, str(t2)), {'text': text}, rep)
    if do_find:
        r = ctx.rng('find', text)
        for m, objs in models():
            for _ in range(4):
                o = r.choice(objs)
                names = [r.choice('abcd') for _ in range(r.randint(1, 2))]
                res = []
                for t in (t1, t2):
                    try:
                        x = find(o, list(names), t, None, use_proxy=t.use_proxy)
                        x = ('proxy', id(x._tx_obj), tuple(id(p) for p in x._tx_path)) if t.use_proxy and x is not None \
                            else ('obj', id(x) if x is not None else None)
                    except RecursionError:
                        x = ('recursion',)
                    except Exception as e:
                        x = ('exc', type(e).__name__)
                    res.append(x)
                ctx.count('find_compared')
                if res[0] != res[1]:
                    ctx.violation(None, 'find() differs between %r and its re-parsed printed form %r on names %r' % (
                        text, s, names), {'text': text, 'printed': s, 'names': names, 'results': repr(res)}, rep)
                    return


def run(ctx):
    size = 3 if ctx.tier == 'quick' else 4
    space = list(A.enum_exprs(size))
    ctx.note('exhaustive_space', {'max_ast_size': size, 'expressions': len(space)})
    total = ctx.deadline - ctx.t0
    ctx.deadline = ctx.t0 + total * 0.7
    for i in ctx.indices(len(space), 'exhaustive', exhaustive=True):
        one(ctx, space[i], {'phase': 'exh', 'size': size, 'i': i}, do_find=(i % 7 == 0))
    ctx.deadline = ctx.t0 + total
    n = 2500 if ctx.tier == 'quick' else 300000
    for i in ctx.indices(n, 'random'):
        with ctx.time_limit(2):
            one(ctx, rand_ast(ctx, i), {'phase': 'rand', 'i': i}, do_find=(i % 3 == 0))


NAMES = ['packages', 'classes', 'methods', 'attrs', 'sup', 'type', 'uses', 'pkg', 'parent', 'x_1', 'é']
TYPES = ['Package', 'Class', 'Model']
FIXED = [('a', "'"), ('b', '"'), ('it\\\'s', "'"), ("it's", '"'), ('x"y', "'"), ('', "'"), ('a b', '"'), ('p.q', "'"),
         ('a\\\\', '"'), ('\\\\', '"'), ('a\\\\b', "'")]


def rand_ast(ctx, i):
    r = ctx.rng('rand', i)
    # nesting depth 3 costs ~100x more parse time (the RREL parser backtracks): mostly depth 2
    return A.rand_expr(r, NAMES, TYPES, FIXED, maxdepth=r.choices([1, 2, 3], [29, 70, 1])[0])


def replay(ctx, rep):
    if rep['phase'] == 'exh':
        space = list(A.enum_exprs(rep['size']))
        one(ctx, space[rep['i']], rep, True)
    else:
        one(ctx, rand_ast(ctx, rep['i']), rep, True)

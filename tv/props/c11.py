"""C11 - RREL reference resolution follows the documented expression semantics."""
from tv import rrelast as A
from tv import rrelref as RR

ID = 'C11'
LEVEL = 'exploration'
QUICK_S = 60
THOROUGH_S = 900
TECHNIQUE = ('runtime monitoring: textx.scoping.rrel.find (and loads with RREL in the grammar / registered as provider) vs a '
             'set-semantics reference evaluator (least fixpoint over (object, remaining name parts)); soundness, completeness, '
             'alternative precedence and proxy-path oracles')
RULE = ('random RREL expressions (own AST: navigation, ~, fixed-name ~, ., .., ..., ^, parent(T), *, brackets, comma, depth '
        '<= 2 quick / 3, half of them from a menu of idiomatic expressions) with and without +p: x random models of nested '
        'packages / classes / methods / attributes with sup/type/use references incl. cyclic inheritance (sibling names '
        'unique in 90% of models) x 14 (start object, name parts, target class) queries each; plus the same expressions used '
        'in a grammar and registered as a provider string. Oracle: result in R (sound), None iff R empty (complete), result '
        'in the first alternative with non-empty R (precedence), with +p: the path ends in the target and its names cover the '
        'name parts. distinct = (expression text, model, query); non-trivial = the reference set is non-empty')
REQUIRED = {'queries': 5000, 'resolving_queries': 300, 'proxy_queries': 300, 'expressions': 300, 'star_expressions': 50,
            'multi_alternative_resolved': 3, 'grammar_level_loads': 20,
            'split_string_loads': 100, 'split_string_loads_with_mixed_delimiters': 50, 'staged_loads': 300, 'staged_member_references_resolved_a_round_later': 300, 'staged_uses_checked': 300}

MENU = ['^packages*.classes', 'packages*.classes', '^packages*.classes.methods', 'packages*.classes.(~sup)*.methods',
        '^classes,^packages*.classes', '.methods,..attrs', 'parent(Class).(~sup)*.attrs', '^(packages,classes)*',
        '~packages*.~classes.methods', 'packages*.classes.attrs.~type.methods', '^~classes.methods', '(..)*.classes',
        'parent(Package).~classes.~sup.methods', '^packages.classes,^classes', 'classes.~sup', '^classes.~sup.methods',
        "'a'~packages.classes", 'packages*.(classes,packages)', '..~classes.methods', '...classes',
        # name-consuming steps followed by steps that consume nothing and lead back to an object already on the path
        'packages*.classes.methods.(..)', 'packages*.classes.methods.parent(Class)',
        'packages*.classes.methods.(..).(..)', 'packages.classes.attrs.parent(Package)', 'classes.methods.(..).~sup',
        '^packages*.classes.methods.(..)*',
        # a locally starting alternative beside one that starts at the model root only and walks without consuming names
        '^classes,~packages*.classes', '..classes,~packages*.classes', 'parent(Package).classes,~packages*.~classes',
        '^classes.methods,~packages*.~classes.methods', '.methods,~packages*.classes.methods', '^classes,~packages*.packages*.classes']
NAMES = RR.ATTRS
TYPES = RR.TYPES
FIXED = [('a', "'"), ('b', '"'), ('c', "'")]


def gen_expr_text(r, tier):
    if r.random() < 0.5:
        t = r.choice(MENU)
    else:
        t = A.pr(A.rand_seq(r, 0, NAMES, TYPES, FIXED, maxdepth=2 if tier == 'quick' else 3))
    if r.random() < 0.3:
        t = '+p:' + t
    return t


def path_ok(pth, tgt, names, has_fixed):
    if not pth or pth[-1] is not tgt:
        return False
    pn = [getattr(x, 'name', None) for x in pth]
    if not has_fixed:
        # the consumed parts, in order (the target may follow as a last unnamed/unconsumed element)
        return pn[:len(names)] == list(names) and len(pn) - len(names) in (0, 1)
    it = iter(pn)
    return all(any(n == x for x in it) for n in names)


def classify(kind, ref_cls, expr, o, names, cls, got_desc, mm, m):
    """explain a disagreement by a recorded mechanism: the reference evaluator reproducing exactly that deviation
    must then agree with textX"""
    return None


def one(ctx, i, rep=None):
    with ctx.time_limit(30):
        _one(ctx, i, rep)


def _one(ctx, i, rep=None):
    from textx import get_children, TextXError
    from textx.scoping.rrel import find, parse
    rep = rep or {'i': i}
    r = ctx.rng('q', i)
    mm = RR.metamodel()
    dup = r.random() < 0.1
    try:
        text = RR.gen_model(r, dup)
        m = mm.model_from_str(text)
    except TextXError:
        ctx.count('model_generation_retries')
        return
    objs = get_children(lambda x: True, m)
    for _ in range(4):
        et = gen_expr_text(r, ctx.tier)
        try:
            expr = parse(et)
        except Exception:
            ctx.count('expression_text_rejected')
            continue
        ctx.count('expressions')
        if '*' in et or '^' in et:
            ctx.count('star_expressions')
        for _q in range(14):
            o = r.choice(objs)
            if r.random() < 0.7:
                t = r.choice(objs)
                chain = []
                while hasattr(t, 'name'):
                    chain.insert(0, t.name)
                    t = getattr(t, 'parent', None)
                names = chain[-r.randint(1, 3):] or ['a']
            else:
                names = [r.choice('abcdfg') for _ in range(r.randint(1, 3))]
            cls = r.choice([None, mm['Class'], mm['Package'], mm['Method'], None])
            verdict(ctx, mm, m, text, et, expr, o, names, cls, dup, rep)


def run_find(expr, o, names, cls):
    from textx.scoping.rrel import find
    try:
        return ('ok', find(o, list(names), expr, cls, use_proxy=expr.use_proxy))
    except RecursionError:
        return ('exc', 'RecursionError')
    except Exception as e:
        return ('exc', type(e).__name__ + ': ' + str(e)[:60])


def judge(ref, expr, got, names, has_fixed):
    """returns None if consistent with the reference sets, else a short reason"""
    allr = [x for s in ref for x in s]
    if got[0] == 'exc':
        return 'exception ' + got[1]
    g = got[1]
    if g is None:
        return 'incomplete: unresolved although %d object(s) are reachable' % len(allr) if allr else None
    tgt = g._tx_obj if expr.use_proxy else g
    if not any(tgt is x[0] for x in allr):
        return 'unsound: result is not reachable by any expansion'
    first = next(s for s in ref if s)
    if not any(tgt is x[0] for x in first):
        return 'precedence: result comes from a later alternative although an earlier one matches'
    if expr.use_proxy and not path_ok(g._tx_path, tgt, names, has_fixed):
        return 'proxy path %r does not list the named objects ending in the target' % [getattr(x, 'name', '?') for x in g._tx_path]
    return None


def verdict(ctx, mm, m, text, et, expr, o, names, cls, dup, rep):
    got = run_find(expr, o, names, cls)
    ref = RR.Ref(m, mm).results(expr, o, names, cls)
    allr = [x for s in ref for x in s]
    ctx.count('queries')
    if allr:
        ctx.count('resolving_queries')
        if len([s for s in ref if s]) > 1:
            ctx.count('multi_alternative_resolved')
    if expr.use_proxy:
        ctx.count('proxy_queries')
    if ctx.evaluations < 120000:
        ctx.case((et, text, id(o) % 997, tuple(names), getattr(cls, '__name__', None)), bool(allr),
                 {'expression': et, 'names': names, 'target_class': getattr(cls, '__name__', None),
                  'reachable': len(allr)} if ctx.evaluations < 3 else None)
    else:
        ctx.evaluations += 1
    has_fixed = "'" in et or '"' in et
    why = judge(ref, expr, got, names, has_fixed)
    if why is None:
        return
    # is the disagreement exactly one of the recorded deviations?
    key = None
    for emu, k in ((('leading-star-start-marked-visited',), 'leading-star-start-marked-visited'),
                   (('first-sibling-only',), 'duplicate-sibling-first-only'),
                   (('first-sibling-only', 'leading-star-start-marked-visited'), 'duplicate-sibling-first-only')):
        if k == 'duplicate-sibling-first-only' and not dup:
            continue
        ref2 = RR.Ref(m, mm, emulate=emu).results(expr, o, names, cls)
        if judge(ref2, expr, got, names, has_fixed) is None:
            key = k
            break
    desc = 'None' if got[1] is None else (got[1] if got[0] == 'exc' else describe(got[1]._tx_obj if expr.use_proxy else got[1]))
    ctx.violation(key, 'find(%s %r, %r, %r, cls=%s): %s (got %s)' % (
        type(o).__name__, getattr(o, 'name', None), names, et, getattr(cls, '__name__', None), why, desc),
        {'model': text, 'expression': et, 'start': describe(o), 'names': names,
         'reachable': [describe(x[0]) for x in allr][:6]}, rep)


def describe(o):
    path = []
    p = o
    while p is not None and hasattr(p, 'name'):
        path.insert(0, str(p.name))
        p = getattr(p, 'parent', None)
    return '%s %s' % (type(o).__name__, '.'.join(path))


REF_RULES = """
Model: packages*=Package refs*=RefObj;
RefObj: 'ref' name=ID '->' t=[%s:FQN%s];
"""
_gmm = {}


def grammar_mm(et, clsname, mode):
    """mode 'grammar': expression written in the grammar; 'string': registered as provider string;
    'permissive': stand-in provider (used to obtain the object graph for the reference evaluator)"""
    from textx import metamodel_from_str
    key = (et, clsname, mode)
    if key not in _gmm:
        if len(_gmm) > 300:
            _gmm.clear()
        body = RR.GR.replace('Model: packages*=Package;', '')
        if mode == 'grammar':
            mm = metamodel_from_str(REF_RULES % (clsname, '|' + et) + body)
        else:
            mm = metamodel_from_str(REF_RULES % (clsname, '') + body)
            if mode == 'string':
                mm.register_scope_providers({'RefObj.t': et})
            else:
                class Stand:
                    def __init__(self, n):
                        self.name = n
                mm.register_scope_providers({'RefObj.t': lambda o, a, ref: Stand(ref.obj_name)})
        _gmm[key] = mm
    return _gmm[key]


def grammar_level(ctx, i, rep=None):
    from textx import get_children, TextXError, TextXSemanticError
    from textx.scoping.rrel import parse
    rep = rep or {'phase': 'grammar', 'i': i}
    r = ctx.rng('g', i)
    et = r.choice(MENU)
    if r.random() < 0.3:
        et = '+p:' + et
    clsname = r.choice(['Method', 'Class', 'Attr'])
    mode = r.choice(['grammar', 'string'])
    text = RR.gen_model(r, False)
    try:
        pm = grammar_mm(et, clsname, 'permissive').model_from_str(text)
    except TextXError:
        return
    objs = get_children(lambda x: hasattr(x, 'name'), pm)
    t = r.choice(objs)
    chain = []
    while hasattr(t, 'name'):
        chain.insert(0, t.name)
        t = getattr(t, 'parent', None)
    names = chain[-r.randint(1, 3):] if r.random() < 0.8 else [r.choice('abcdfg') for _ in range(r.randint(1, 2))]
    text2 = text + '\nref r1 -> ' + '.'.join(names) + '\n'
    pmm = grammar_mm(et, clsname, 'permissive')
    pm = pmm.model_from_str(text2)
    expr = parse(et)
    ref = RR.Ref(pm, pmm).results(expr, pm.refs[0], names, pmm[clsname])
    ctx.count('grammar_level_loads')
    mm = grammar_mm(et, clsname, mode)
    wit = {'model': text2, 'expression': et, 'target_class': clsname, 'how': mode}
    ctx.case(('grammar', et, text2, clsname, mode), any(ref), wit if ctx.evaluations % 500 == 0 else None)
    try:
        m = mm.model_from_str(text2)
        got = m.refs[0].t
        got = ('ok', got)
    except TextXSemanticError as e:
        if 'Unknown object' not in str(e):
            ctx.violation(None, 'unexpected error: %s' % str(e)[:120], wit, rep)
            return
        got = ('ok', None)
    except RecursionError:
        got = ('exc', 'RecursionError')

    class E:
        use_proxy = expr.use_proxy
    # translate reference targets (objects of the permissive model) to descriptions
    if got[0] == 'ok' and got[1] is not None:
        g = got[1]
        tgt = g._tx_obj if expr.use_proxy else g
        d = describe(tgt)
        allr = [describe(x[0]) for s_ in ref for x in s_]
        first = next(([describe(x[0]) for x in s_] for s_ in ref if s_), [])
        if d not in allr:
            why = 'unsound: resolved to %s which no expansion reaches' % d
        elif d not in first:
            why = 'precedence: resolved to %s from a later alternative' % d
        elif expr.use_proxy and (not g._tx_path or g._tx_path[-1] is not tgt):
            why = 'proxy path does not end in the target'
        else:
            why = None
    elif got[0] == 'exc':
        why = 'exception ' + got[1]
    else:
        why = 'incomplete: unresolved although reachable: %r' % [describe(x[0]) for s_ in ref for x in s_][:3] if any(ref) else None
    if why:
        key = None
        ref2 = RR.Ref(pm, pmm, emulate=('leading-star-start-marked-visited',)).results(expr, pm.refs[0], names, pmm[clsname])
        if why.startswith('incomplete') and not any(ref2):
            key = 'leading-star-start-marked-visited'
        ctx.violation(key, 'reference %r via %s RREL %r (target %s): %s' % ('.'.join(names), mode, et, clsname, why), wit, rep)


STAGED_GRAMMAR = r"""
Model: boxes+=Box defs+=Def uses+=Use;
Box: 'box' name=ID '{' 'refs' members+=[Def|FQN|defs,defs.alias][','] ';' ('local' locals+=Def)* '}';
Def: 'def' name=ID ('alias' alias=[Def|ID|defs])?;
Use: 'use' name=ID target=[Def|FQN|%s];
FQN: ID('.'ID)*;
"""


def staged(ctx, i, rep=None):
    """RREL navigation through reference attributes that are themselves resolved in different rounds: the members of a
    box are references; 'dY.dZ' entries go through dY.alias, which is written later and therefore resolved a round
    later than plain 'dX' entries of the same list. Uses are looked up through boxes.members (, boxes.locals)."""
    from textx import metamodel_from_str, TextXError
    rep = rep or {'phase': 'staged', 'i': i}
    r = ctx.rng('staged', i)
    n = r.randint(3, 7)
    defs = ['d%d' % k for k in range(n)]
    alias = {}
    for d in defs:
        if r.random() < 0.5:
            alias[d] = r.choice([x for x in defs if x != d])
    boxes = []
    for b in range(r.randint(1, 3)):
        members = []          # (text, resulting def name)
        for _ in range(r.randint(1, 4)):
            if alias and r.random() < 0.5:
                y = r.choice(sorted(alias))
                members.append(('%s.%s' % (y, alias[y]), alias[y]))
            else:
                x = r.choice(defs)
                members.append((x, x))
        locals_ = [r.choice(defs + ['loc%d' % b]) for _ in range(r.randint(0, 2))]
        boxes.append(('b%d' % b, members, sorted(set(locals_))))
    flags = r.choice(['', '+p:'])
    form = r.choice(['members,locals', 'members', 'fixed'])
    rrel = {'members,locals': 'boxes.members,boxes.locals', 'members': 'boxes.members', 'fixed': "'%s'~boxes.members" % boxes[0][0]}[form]
    uses = []
    for k in range(r.randint(2, 6)):
        b = boxes[0] if form == 'fixed' else r.choice(boxes)
        cand = [m[1] for m in b[1]] + b[2] + [r.choice(defs)]
        nm = r.choice(cand)
        if form == 'fixed':
            text = nm
        else:
            text = '%s.%s' % (b[0], nm)
        in_members = nm in [m[1] for m in b[1]]
        if in_members:
            exp = ('top', nm)
        elif form == 'members,locals' and nm in b[2]:
            exp = ('local', b[0], nm)
        else:
            exp = None
        uses.append(('u%d' % k, text, exp))
    # keep at most one failing use, the last one
    good = [u for u in uses if u[2] is not None]
    bad = [u for u in uses if u[2] is None]
    uses = good + bad[:1 if r.random() < 0.3 else 0]
    if not uses:
        return
    text = ''
    for name, members, locals_ in boxes:
        text += 'box %s { refs %s ; %s }\n' % (name, ' , '.join(m[0] for m in members), ' '.join('local def %s' % l for l in locals_))
    for d in defs:
        text += 'def %s%s\n' % (d, (' alias ' + alias[d]) if d in alias else '')
    for un, ut, _ in uses:
        text += 'use %s %s\n' % (un, ut)
    wit = {'grammar_rrel': flags + rrel, 'model': text}
    staged_members = sum(1 for _, ms, _l in boxes for m in ms if '.' in m[0])
    ctx.count('staged_loads')
    ctx.count('staged_member_references_resolved_a_round_later', staged_members)
    ctx.case(('staged', flags, form, n, tuple(len(b[1]) for b in boxes)), staged_members > 0, wit if ctx.evaluations % 4000 == 5 else None)
    mm = metamodel_from_str(STAGED_GRAMMAR % (flags + rrel))
    expect_fail = uses[-1][2] is None
    try:
        m = mm.model_from_str(text)
    except TextXError as e:
        if not expect_fail or ('"%s"' % uses[-1][1]) not in str(e):
            ctx.violation(None, 'staged references: load failed although every use is reachable through %s: %s' % (rrel, str(e)[:140]), wit, rep)
        return
    if expect_fail:
        ctx.violation(None, 'staged references: use %s %s resolved although %s reaches nothing of that name' % (uses[-1][0], uses[-1][1], rrel), wit, rep)
        return
    top = {d.name: d for d in m.defs}
    bx = {b.name: b for b in m.boxes}
    for (bn, members, _l), b in zip(boxes, m.boxes):
        if [x.name for x in b.members] != [mm_[1] for mm_ in members] or any(x is not top[x.name] for x in b.members):
            ctx.violation(None, 'staged references: members of %s are %r, written %r' % (bn, [x.name for x in b.members], [q[0] for q in members]), wit, rep)
            return
    for (un, ut, exp), u in zip(uses, m.uses):
        ctx.count('staged_uses_checked')
        tgt = getattr(u.target, '_tx_obj', u.target)
        if exp[0] == 'top':
            want = top[exp[1]]
            bname = ut.split('.')[0] if '.' in ut else boxes[0][0]
        else:
            want = [l for l in bx[exp[1]].locals if l.name == exp[2]][0]
            bname = exp[1]
        if tgt is not want:
            ctx.violation(None, 'staged references: use %s %r via %s resolved to %s %s, expected %s' % (
                un, ut, flags + rrel, 'the local def' if tgt in bx[bname].locals else 'the top-level def', getattr(tgt, 'name', None),
                'the top-level def %s reachable through %s.members (first alternative)' % (exp[1], bname) if exp[0] == 'top'
                else 'the local def %s of %s' % (exp[2], exp[1])), wit, rep)
            return
        if flags:
            path = getattr(u.target, '_tx_path', None)
            if not path or path[-1] is not want or path[0] is not bx[bname]:
                ctx.violation(None, 'staged references: proxy path of use %s is %r' % (un, [getattr(p_, 'name', '?') for p_ in (path or [])]), wit, rep)
                return


SPLIT_GRAMMAR = r"""
Model: packages*=Package uses*=AnyUse;
Package: 'package' name=ID '{' (packages+=Package | classes+=Class)* '}';
Class: 'class' name=ID;
AnyUse: UseDot | UseColon | UseSlash;
UseDot: 'dot' name=ID target=[Class|DotName];
UseColon: 'colon' name=ID target=[Class|ColonName];
UseSlash: 'slash' name=ID target=[Class|SlashName];
DotName: ID('.'ID)*;
ColonName[split='::']: ID('::'ID)*;
SlashName[split='/']: ID('/'ID)*;
"""


def split_strings(ctx, i, rep=None):
    """one registered RREL provider (a string under a wildcard key, or one provider object under several keys) serves
    references whose match rules split the name with different delimiters"""
    from textx import metamodel_from_str, TextXError
    from textx.scoping.rrel import create_rrel_scope_provider
    rep = rep or {'phase': 'split', 'i': i}
    r = ctx.rng('split', i)
    paths = [['P', 'Q', 'c'], ['P', 'd'], ['R', 'e'], ['P', 'Q', 'S', 'f']]
    text = 'package P { package Q { class c package S { class f } } class d } package R { class e }\n'
    seps = {'dot': '.', 'colon': '::', 'slash': '/'}
    uses = []
    for k in range(r.randint(2, 6)):
        kind = r.choice(sorted(seps))
        pth = r.choice(paths)
        uses.append((kind, 'u%d' % k, pth))
        text += '%s u%d %s\n' % (kind, k, seps[kind].join(pth))
    how = r.choice(['wildcard-string', 'attr-string', 'one-object-several-keys'])
    mm = metamodel_from_str(SPLIT_GRAMMAR)
    if how == 'wildcard-string':
        mm.register_scope_providers({'*.*': 'packages*.classes'})
    elif how == 'attr-string':
        mm.register_scope_providers({'*.target': '+p:packages*.classes'})
    else:
        prov = create_rrel_scope_provider('packages*.classes')
        mm.register_scope_providers({'UseDot.target': prov, 'UseColon.target': prov, 'UseSlash.target': prov})
    wit = {'model': text, 'registration': how}
    ctx.count('split_string_loads')
    if len({u[0] for u in uses}) >= 2:
        ctx.count('split_string_loads_with_mixed_delimiters')
    ctx.case(('split', how, tuple(u[0] for u in uses)), len({u[0] for u in uses}) >= 2, wit if ctx.evaluations % 5000 == 7 else None)
    for attempt in range(2):          # the second load uses the same metamodel again
        try:
            m = mm.model_from_str(text)
        except TextXError as e:
            ctx.violation(None, 'references written with the delimiter of their match rule (%s) do not all resolve through one '
                          'registered RREL provider: %s' % (how, str(e)[:120]), wit, rep)
            return
        for (kind, un, pth), u in zip(uses, m.uses):
            tgt = getattr(u.target, '_tx_obj', u.target)
            chain = []
            o = tgt
            while hasattr(o, 'parent') and hasattr(o, 'name'):
                chain.insert(0, o.name)
                o = o.parent
            if chain != pth:
                ctx.violation(None, 'reference %s %r resolved to %s' % (un, seps[kind].join(pth), '.'.join(chain)), wit, rep)
                return


def run(ctx):
    for i in ctx.indices(400 if ctx.tier == 'quick' else 20000, 'random'):
        split_strings(ctx, i)
        one(ctx, i)
        with ctx.time_limit(20):
            grammar_level(ctx, i)
        for k in range(4):
            staged(ctx, i * 4 + k)


def replay(ctx, rep):
    if rep.get('phase') == 'split':
        split_strings(ctx, rep['i'], rep)
    elif rep.get('phase') == 'staged':
        staged(ctx, rep['i'], rep)
    elif rep.get('phase') == 'grammar':
        grammar_level(ctx, rep['i'], rep)
    else:
        one(ctx, rep['i'], rep)

"""C11 - RREL reference resolution follows the documented expression semantics."""
from tv import rrelast as A
from tv import rrelref as RR

ID = 'C11'
LEVEL = 'exploration'
QUICK_S = 60
THOROUGH_S = 900
TECHNIQUE = ('runtime monitoring: textx.scoping.rrel.find (and loads with RREL in the grammar / registered as provider) vs a '
             'set-semantics reference evaluator (least fixpoint over (object, remaining name parts)); soundness, completeness, '
             'alternative precedence and proxy-path oracles')
RULE = ('random RREL expressions (own AST: navigation, ~, fixed-name ~, ., .., ..., ^, parent(T), *, brackets, comma, depth '
        '<= 2 quick / 3, half of them from a menu of idiomatic expressions) with and without +p: x random models of nested '
        'packages / classes / methods / attributes with sup/type/use references incl. cyclic inheritance (sibling names '
        'unique in 90% of models) x 14 (start object, name parts, target class) queries each; plus the same expressions used '
        'in a grammar and registered as a provider string. Oracle: result in R (sound), None iff R empty (complete), result '
        'in the first alternative with non-empty R (precedence), with +p: the path ends in the target and its names cover the '
        'name parts. distinct = (expression text, model, query); non-trivial = the reference set is non-empty')
REQUIRED = {'queries': 5000, 'resolving_queries': 300, 'proxy_queries': 300, 'expressions': 300, 'star_expressions': 50,
            'multi_alternative_resolved': 10, 'grammar_level_loads': 20}

MENU = ['^packages*.classes', 'packages*.classes', '^packages*.classes.methods', 'packages*.classes.(~sup)*.methods',
        '^classes,^packages*.classes', '.methods,..attrs', 'parent(Class).(~sup)*.attrs', '^(packages,classes)*',
        '~packages*.~classes.methods', 'packages*.classes.attrs.~type.methods', '^~classes.methods', '(..)*.classes',
        'parent(Package).~classes.~sup.methods', '^packages.classes,^classes', 'classes.~sup', '^classes.~sup.methods',
        "'a'~packages.classes", 'packages*.(classes,packages)', '..~classes.methods', '...classes']
NAMES = RR.ATTRS
TYPES = RR.TYPES
FIXED = [('a', "'"), ('b', '"'), ('c', "'")]


def gen_expr_text(r, tier):
    if r.random() < 0.5:
        t = r.choice(MENU)
    else:
        t = A.pr(A.rand_seq(r, 0, NAMES, TYPES, FIXED, maxdepth=2 if tier == 'quick' else 3))
    if r.random() < 0.3:
        t = '+p:' + t
    return t


def path_ok(pth, tgt, names, has_fixed):
    if not pth or pth[-1] is not tgt:
        return False
    pn = [getattr(x, 'name', None) for x in pth]
    if not has_fixed:
        # the consumed parts, in order (the target may follow as a last unnamed/unconsumed element)
        return pn[:len(names)] == list(names) and len(pn) - len(names) in (0, 1)
    it = iter(pn)
    return all(any(n == x for x in it) for n in names)


def classify(kind, ref_cls, expr, o, names, cls, got_desc, mm, m):
    """explain a disagreement by a recorded mechanism: the reference evaluator reproducing exactly that deviation
    must then agree with textX"""
    return None


def one(ctx, i, rep=None):
    with ctx.time_limit(30):
        _one(ctx, i, rep)


def _one(ctx, i, rep=None):
    from textx import get_children, TextXError
    from textx.scoping.rrel import find, parse
    rep = rep or {'i': i}
    r = ctx.rng('q', i)
    mm = RR.metamodel()
    dup = r.random() < 0.1
    try:
        text = RR.gen_model(r, dup)
        m = mm.model_from_str(text)
    except TextXError:
        ctx.count('model_generation_retries')
        return
    objs = get_children(lambda x: True, m)
    for _ in range(4):
        et = gen_expr_text(r, ctx.tier)
        try:
            expr = parse(et)
        except Exception:
            ctx.count('expression_text_rejected')
            continue
        ctx.count('expressions')
        if '*' in et or '^' in et:
            ctx.count('star_expressions')
        for _q in range(14):
            o = r.choice(objs)
            if r.random() < 0.7:
                t = r.choice(objs)
                chain = []
                while hasattr(t, 'name'):
                    chain.insert(0, t.name)
                    t = getattr(t, 'parent', None)
                names = chain[-r.randint(1, 3):] or ['a']
            else:
                names = [r.choice('abcdfg') for _ in range(r.randint(1, 3))]
            cls = r.choice([None, mm['Class'], mm['Package'], mm['Method'], None])
            verdict(ctx, mm, m, text, et, expr, o, names, cls, dup, rep)


def run_find(expr, o, names, cls):
    from textx.scoping.rrel import find
    try:
        return ('ok', find(o, list(names), expr, cls, use_proxy=expr.use_proxy))
    except RecursionError:
        return ('exc', 'RecursionError')
    except Exception as e:
        return ('exc', type(e).__name__ + ': ' + str(e)[:60])


def judge(ref, expr, got, names, has_fixed):
    """returns None if consistent with the reference sets, else a short reason"""
    allr = [x for s in ref for x in s]
    if got[0] == 'exc':
        return 'exception ' + got[1]
    g = got[1]
    if g is None:
        return 'incomplete: unresolved although %d object(s) are reachable' % len(allr) if allr else None
    tgt = g._tx_obj if expr.use_proxy else g
    if not any(tgt is x[0] for x in allr):
        return 'unsound: result is not reachable by any expansion'
    first = next(s for s in ref if s)
    if not any(tgt is x[0] for x in first):
        return 'precedence: result comes from a later alternative although an earlier one matches'
    if expr.use_proxy and not path_ok(g._tx_path, tgt, names, has_fixed):
        return 'proxy path %r does not list the named objects ending in the target' % [getattr(x, 'name', '?') for x in g._tx_path]
    return None


def verdict(ctx, mm, m, text, et, expr, o, names, cls, dup, rep):
    got = run_find(expr, o, names, cls)
    ref = RR.Ref(m, mm).results(expr, o, names, cls)
    allr = [x for s in ref for x in s]
    ctx.count('queries')
    if allr:
        ctx.count('resolving_queries')
        if len([s for s in ref if s]) > 1:
            ctx.count('multi_alternative_resolved')
    if expr.use_proxy:
        ctx.count('proxy_queries')
    if ctx.evaluations < 120000:
        ctx.case((et, text, id(o) % 997, tuple(names), getattr(cls, '__name__', None)), bool(allr),
                 {'expression': et, 'names': names, 'target_class': getattr(cls, '__name__', None),
                  'reachable': len(allr)} if ctx.evaluations < 3 else None)
    else:
        ctx.evaluations += 1
    has_fixed = "'" in et or '"' in et
    why = judge(ref, expr, got, names, has_fixed)
    if why is None:
        return
    # is the disagreement exactly one of the recorded deviations?
    key = None
    for emu, k in ((('leading-star-start-marked-visited',), 'leading-star-start-marked-visited'),
                   (('first-sibling-only',), 'duplicate-sibling-first-only'),
                   (('first-sibling-only', 'leading-star-start-marked-visited'), 'duplicate-sibling-first-only')):
        if k == 'duplicate-sibling-first-only' and not dup:
            continue
        ref2 = RR.Ref(m, mm, emulate=emu).results(expr, o, names, cls)
        if judge(ref2, expr, got, names, has_fixed) is None:
            key = k
            break
    desc = 'None' if got[1] is None else (got[1] if got[0] == 'exc' else describe(got[1]._tx_obj if expr.use_proxy else got[1]))
    ctx.violation(key, 'find(%s %r, %r, %r, cls=%s): %s (got %s)' % (
        type(o).__name__, getattr(o, 'name', None), names, et, getattr(cls, '__name__', None), why, desc),
        {'model': text, 'expression': et, 'start': describe(o), 'names': names,
         'reachable': [describe(x[0]) for x in allr][:6]}, rep)


def describe(o):
    path = []
    p = o
    while p is not None and hasattr(p, 'name'):
        path.insert(0, str(p.name))
        p = getattr(p, 'parent', None)
    return '%s %s' % (type(o).__name__, '.'.join(path))


REF_RULES = """
Model: packages*=Package refs*=RefObj;
RefObj: 'ref' name=ID '->' t=[%s:FQN%s];
"""
_gmm = {}


def grammar_mm(et, clsname, mode):
    """mode 'grammar': expression written in the grammar; 'string': registered as provider string;
    'permissive': stand-in provider (used to obtain the object graph for the reference evaluator)"""
    from textx import metamodel_from_str
    key = (et, clsname, mode)
    if key not in _gmm:
        if len(_gmm) > 300:
            _gmm.clear()
        body = RR.GR.replace('Model: packages*=Package;', '')
        if mode == 'grammar':
            mm = metamodel_from_str(REF_RULES % (clsname, '|' + et) + body)
        else:
            mm = metamodel_from_str(REF_RULES % (clsname, '') + body)
            if mode == 'string':
                mm.register_scope_providers({'RefObj.t': et})
            else:
                class Stand:
                    def __init__(self, n):
                        self.name = n
                mm.register_scope_providers({'RefObj.t': lambda o, a, ref: Stand(ref.obj_name)})
        _gmm[key] = mm
    return _gmm[key]


def grammar_level(ctx, i, rep=None):
    from textx import get_children, TextXError, TextXSemanticError
    from textx.scoping.rrel import parse
    rep = rep or {'phase': 'grammar', 'i': i}
    r = ctx.rng('g', i)
    et = r.choice(MENU)
    if r.random() < 0.3:
        et = '+p:' + et
    clsname = r.choice(['Method', 'Class', 'Attr'])
    mode = r.choice(['grammar', 'string'])
    text = RR.gen_model(r, False)
    try:
        pm = grammar_mm(et, clsname, 'permissive').model_from_str(text)
    except TextXError:
        return
    objs = get_children(lambda x: hasattr(x, 'name'), pm)
    t = r.choice(objs)
    chain = []
    while hasattr(t, 'name'):
        chain.insert(0, t.name)
        t = getattr(t, 'parent', None)
    names = chain[-r.randint(1, 3):] if r.random() < 0.8 else [r.choice('abcdfg') for _ in range(r.randint(1, 2))]
    text2 = text + '\nref r1 -> ' + '.'.join(names) + '\n'
    pmm = grammar_mm(et, clsname, 'permissive')
    pm = pmm.model_from_str(text2)
    expr = parse(et)
    ref = RR.Ref(pm, pmm).results(expr, pm.refs[0], names, pmm[clsname])
    ctx.count('grammar_level_loads')
    mm = grammar_mm(et, clsname, mode)
    wit = {'model': text2, 'expression': et, 'target_class': clsname, 'how': mode}
    ctx.case(('grammar', et, text2, clsname, mode), any(ref), wit if ctx.evaluations % 500 == 0 else None)
    try:
        m = mm.model_from_str(text2)
        got = m.refs[0].t
        got = ('ok', got)
    except TextXSemanticError as e:
        if 'Unknown object' not in str(e):
            ctx.violation(None, 'unexpected error: %s' % str(e)[:120], wit, rep)
            return
        got = ('ok', None)
    except RecursionError:
        got = ('exc', 'RecursionError')

    class E:
        use_proxy = expr.use_proxy
    # translate reference targets (objects of the permissive model) to descriptions
    if got[0] == 'ok' and got[1] is not None:
        g = got[1]
        tgt = g._tx_obj if expr.use_proxy else g
        d = describe(tgt)
        allr = [describe(x[0]) for s_ in ref for x in s_]
        first = next(([describe(x[0]) for x in s_] for s_ in ref if s_), [])
        if d not in allr:
            why = 'unsound: resolved to %s which no expansion reaches' % d
        elif d not in first:
            why = 'precedence: resolved to %s from a later alternative' % d
        elif expr.use_proxy and (not g._tx_path or g._tx_path[-1] is not tgt):
            why = 'proxy path does not end in the target'
        else:
            why = None
    elif got[0] == 'exc':
        why = 'exception ' + got[1]
    else:
        why = 'incomplete: unresolved although reachable: %r' % [describe(x[0]) for s_ in ref for x in s_][:3] if any(ref) else None
    if why:
        key = None
        ref2 = RR.Ref(pm, pmm, emulate=('leading-star-start-marked-visited',)).results(expr, pm.refs[0], names, pmm[clsname])
        if why.startswith('incomplete') and not any(ref2):
            key = 'leading-star-start-marked-visited'
        ctx.violation(key, 'reference %r via %s RREL %r (target %s): %s' % ('.'.join(names), mode, et, clsname, why), wit, rep)


def run(ctx):
    for i in ctx.indices(400 if ctx.tier == 'quick' else 20000, 'random'):
        one(ctx, i)
        with ctx.time_limit(20):
            grammar_level(ctx, i)


def replay(ctx, rep):
    if rep.get('phase') == 'grammar':
        grammar_level(ctx, rep['i'], rep)
    else:
        one(ctx, rep['i'], rep)

"""C24 - the self-hosted textX grammar (textx.tx) agrees with the grammar compiler."""
import re

from tv import refpeg as RP
from tv.props import c23 as F

ID = 'C24'
LEVEL = 'exploration'
QUICK_S = 120
THOROUGH_S = 1200
TECHNIQUE = ('runtime monitoring: two-parser acceptance differential (grammar compiler parse phase vs textx.tx through the '
             'registered textx language) on generated and mutated grammar texts; divergences are delta-debugged to a minimal '
             'token sequence which names the construct')
RULE = ('texts: random grammars printed from the generator ASTs (all operators, repetition modifiers, link references with '
        'match rule / RREL, rule modifiers, comments), every .tx file and documentation grammar of the repository, targeted '
        'snippets over the full syntax (imports, references with aliases, rule parameters, RREL flags and fixed names, '
        'modifier mixtures, digit-leading identifiers, qualified class names), templates that put every lexical class (plain / '
        'dotted 1-3 times / digit-leading / unicode / keyword-like / empty identifiers, string and regex spellings) into every '
        'syntactic position, and 1-3 token/character mutations of all of '
        'them. Oracle: textx.tx accepts (no TextXSyntaxError from grammar_model_from_str) iff the compiler\'s PEG parser '
        'accepts. distinct = text; non-trivial = accepted by at least one side and contains a reference, a modifier or RREL')
REQUIRED = {'texts': 5000, 'accepted_by_both': 1500, 'rejected_by_both': 1500, 'targeted_snippets': 800, 'template_texts': 2000}

SNIPPETS = [
    "A: a=[B:ID]; B: name=ID;", "A: a=[B|ID]; B: name=ID;", "A: a=[B:ID|b]; B: name=ID b*=B;", "A: a=[B|ID|b]; B: name=ID b*=B;",
    "A: a=[B:ID|+m:b]; B: name=ID b*=B;", "A: a=[B:ID|+p:b]; B: name=ID b*=B;", "A: a=[B:ID|+mp:b]; B: name=ID b*=B;",
    "A: a=[B:ID|+pm:^b*.c,d]; B: name=ID b*=B;", "A: a=[B:ID|'x'~b]; B: name=ID b*=B;", 'A: a=[B:ID|"x"~b.~c]; B: name=ID b*=B;',
    "A: a=[B:ID|parent(B).b]; B: name=ID b*=B;", "A: a=[B:ID|..b]; B: name=ID b*=B;", "A: a=[B:ID|(b,c)*.d]; B: name=ID;",
    "A: a=[B:ID|^]; B: name=ID;", "A: a=[B:ID|...]; B: name=ID;", "A: a=[B:ID|~b*]; B: name=ID b*=B;", "A: a=[x.B]; B: name=ID;",
    "A: a=[x.B:FQN|^b]; FQN: ID;", "A: a+=INT[','];", "A: a+=INT[',' eolterm];", "A: a+=INT[eolterm ','];", "A: a+=INT[eolterm];",
    "A: a+=INT[',' ';'];", "A: a+=INT[/,/];", "A: a+=INT[eolterm eolterm];", "A: ('a' 'b')*[','];", "A: 'a'*[',' eolterm];",
    "A: 'a'+[eolterm ','];", "A: ('a' 'b')#[','];", "A: 'a'?[','];", "A: a+=INTEGER[',']; INTEGER: INT;", "A: a=IDX; IDX: ID;",
    "A: IDX*[',']; IDX: ID;", "A: a=STRICTFLOAT;", "A: a=STRINGS; STRINGS: STRING;", "A: BOOLEAN; BOOLEAN: BOOL;", "1A: a=INT;",
    "A: 1a=INT;", "A: a=1B; 1B: 'x';", "A9_: a=INT;", "_A: _a=INT;", "Aé: aé=INT;", "A[skipws]: 'a';", "A[noskipws]: 'a';",
    "A[ws='\\t ']: 'a';", 'A[ws="x"]: "a";', "A[skipws, ws=' ']: 'a';", "A[foo]: 'a';", "A[foo='x', bar]: 'a';", "A[1x]: 'a';",
    "A[split='.']: ID;", "import x A: a=INT;", "import a.b.c\nA: a=INT;", "import 1x\nA: 'a';", "reference foo A: a=INT;",
    "reference foo-bar as f A: a=[f.X];", "reference foo as 1x A: 'a';", "reference foo as f\nreference bar\nA: 'a';", "",
    "// only a comment\n", "/* c */", "A: 'a'; // trailing", "A: /a\\/b/;", "A: / a/;", "A: a=/ x /;", "A: /[/]/;", "A: //;",
    "A: 'a'-;", "A: B-; B: 'b';", "A: ('a' | 'b')-;", "A: a='a'-;", "A: !'a' 'b';", "A: &B 'b'; B: 'b';", "A: !(B) 'b'; B: 'c';",
    "A: !a=INT;", "A: a?='x';", "A: a*=B; B: 'b';", "A: a=B?; B:'b';", "A: a=B*; B: 'b';", "A: (a=INT)+;", "A: a=INT | b=INT | 'c';",
    "A: 'a' ('b' ('c' 'd')?)*;", "A: ;", "A: | 'a';", "A: 'a' | ;", "A: ();", "A: 'a';;", "A 'a';", "A: 'a'", ": 'a';", "A: a==INT;",
    "A: a=[B; B: 'b';", "A: a=[B:]; B: name=ID;", "A: a=[B:ID|]; B: name=ID;", "A: a=[B||b]; B: name=ID;", "A: a=[]; ",
    "A: 'it\\'s';", 'A: "say \\"hi\\"";', "A: 'a\nb';", "A: a = INT ;", "A:a=INT;B:b=INT;", "A\n:\na\n=\nINT\n;",
    "A: a=INT /* c */ b=INT; // x\n", "A: a=[B:ID|+m:~b.c*]; B: name=ID;", "A: a=[B:ID|+q:b]; B: name=ID;", "A: a=[B:ID|+:b]; B: name=ID;",
    "A: a=[B:ID|'x'b]; B: name=ID;", "A: a=[B:ID|b.]; B: name=ID;", "A: a=[B:ID|.b]; B: name=ID;", "A: a=[B:ID|b..c]; B: name=ID;",
    "A: a=[B:ID|parent(1B)]; B: name=ID;", "A: a=[B:ID|1b]; B: name=ID;", "A: a=[B:1ID]; B: name=ID;", "A: a=[1B]; 1B: name=ID;",
    "A: a=INT[','];", "A: a?=INT[','];", "A: a=INT['a' 'b' eolterm 'c'];", "A: 'a'#;", "A: B#; B: 'b';", "A: a=OBJECT;", "OBJECT: 'a';",
]

# every lexical class crossed with every syntactic position (templates filled from pools)
IDENTS = ['B', 'x.B', 'a.b.C', 'a.b.c.D', '1B', 'B9', '_b', 'B\u00e9', 'b-c', 'B.', '.B', 'B..C', '', 'INT', 'INTx', 'ID', 'OBJECT', 'eolterm',
          'skipws', 'ws', 'import', 'as', 'reference', 'parent', 'STRICTFLOAT', 'BASETYPE', 'NUMBERS', 'b_c', 'B C',
          'imports', 'references', 'assembly', 'ImportList', 'References', 'EOLTERM', 'Eolterm', 'SKIPWS', 'Parent', 'AS', 'WS', 'NoSkipWs', 'importfoo', 'referencefoo', 'eoltermx', 'parents', 'asx', 'wsx', 'skipwsx', 'INTs']
STRS = ["'a'", '"a"', "''", '""', "'\\''", '"\\""', "'a b'", "'\\n'", "' '", "'/'", "'['", "'a", 'a"', "'\u00e9'", "'\\u00e9'",
        # strings ending in backslashes (an even number reads as escaped backslashes, an odd number escapes the quote)
        "'dir\\\\'", '"dir\\\\"', "'\\\\'", "'a\\\\\\\\'", "'a\\\\\\'", "'x\\\\' name=ID '"]
REGS = ['/a/', '/\\//', '/[a-z]+/', '/ /', '//', '/a\\\\/', '/(a)/', '/a/ ', '/a', '/\\d+(\\.\\d+)?/']
TEMPLATES = [
    "{I}: 'x';", "A: {I};", "A: {I}*;", "A: {I}+[','];", "A: {I}-;", "A: {I}#;", "A: !{I} 'x';", "A: &{I} 'x';", "A: {I}={I};", "A: {I}+={I};",
    "A: {I}*={I}[{S}];", "A: {I}?={S};", "A: a=[{I}];", "A: a=[{I}:{I}];", "A: a=[{I}|{I}];", "A: a=[{I}:{I}|{I}];", "A: a=[{I}|{I}|{I}];",
    "A: a=[B:ID|{I}.{I}];", "A: a=[B:ID|~{I}];", "A: a=[B:ID|{S}~{I}];", "A: a=[B:ID|parent({I})];", "A: a=[B:ID|{I}*];", "A: a=[B:ID|({I},{I})*];",
    "A: a=[B:ID|^{I}];", "A: a=[B:ID|+m:{I}];", "A: a=[B:ID|+{I}:b];", "A: a=[B:ID|..{I}];", "A: a=[B:ID|{I}..{I}];", "A: a=[B:ID|{I},{I}];",
    "A[{I}]: 'x';", "A[{I}={S}]: 'x';", "A[{I}, {I}={S}]: 'x';", "A[{I}={I}]: 'x';", "import {I}\nA: 'x';", "import {I}\nimport {I}\nA: 'x';",
    "reference {I}\nA: 'x';", "reference {I} as {I}\nA: 'x';", "A: a+=INT[{S}];", "A: a+=INT[{S} eolterm];", "A: a+=INT[eolterm {S}];",
    "A: a+=INT[{R}];", "A: a+=INT[{I}];", "A: 'x'*[{S} {S}];", "A: {S};", "A: {R};", "A: a={S};", "A: a={R};", "A: {S}-;", "A: {R}-;", "A: {S} {R} {S};",
    "A: ({S} | {R})*;", "import{I}\nA: 'x';", "reference{I}\nA: 'x';", "reference foo as{I}\nA: 'x';", "reference foo\n{I}: 'x';", "import foo\n{I}: 'x';",
    "A: a+=INT[eolterm{I}];", "IMPORT {I}\nA: 'x';", "Import {I}\nA: 'x';", "REFERENCE {I} AS {I}\nA: 'x';", "reference {I} As {I}\nA: 'x';",
    "A: a+=INT[{S} EOLTERM];", "A: a+=INT[Eolterm];", "A[SKIPWS]: 'x';", "A[NoSkipWs, WS={S}]: 'x';", "A: a=[B:ID|PARENT(B).{I}];", "A: a=[B:ID|Parent({I})];",
    "A: a=[B:ID|+M:{I}];", "A: a=[B:ID|+P:{I}];", "A: a+=INT[{S}eolterm];", "A: a=[B:ID|parent{I}(B)];", "A: a=[B:ID|parent({I})b];", "A[skipws{I}]: 'x';", "A[ws{I}={S}]: 'x';", "A: {R}{R};", "A: {R} / {R};", "A: {S}{S};", "A: a={I} b={I};", "A: ({I} {I})#[{S}];", "A: a=[{I}]*;", "A: a*=[{I}][{S}];",
    "A: a=[{I}:{I}|+mp:{I}.{I}*];", "A: a=[B:ID|+pm:{S}~{I}.~{I}];", "{I}: {I}; {I}: {I};", "A: 'x'; {I}", "A: 'x' // {I}\n;", "A: /* {I} */ 'x';",
]


def template_text(r):
    t = r.choice(TEMPLATES)
    out = []
    for part in re.split(r'(\{[ISR]\})', t):
        if part == '{I}':
            out.append(r.choice(IDENTS))
        elif part == '{S}':
            out.append(r.choice(STRS))
        elif part == '{R}':
            out.append(r.choice(REGS))
        else:
            out.append(part)
    return ''.join(out)


_cache = {}


def parsers():
    if not _cache:
        import os
        if os.getpid() % 2:
            # the very first metamodel of this process is a case-insensitive one (anything cached per process by the
            # first compilation shows in every later one)
            from textx import metamodel_from_str
            metamodel_from_str("A: 'a' b=INT;", ignore_case=True, autokwd=True, skipws=False)
        from arpeggio import ParserPython
        from textx.lang import textx_model, comment
        from textx import metamodel_for_language
        _cache['compiler'] = ParserPython(textx_model, comment_def=comment, ignore_case=False, reduce_tree=False)
        _cache['tx'] = metamodel_for_language('textx')
    return _cache['compiler'], _cache['tx']


def accepts(text):
    """(compiler parse phase accepts, textx.tx accepts); an exception other than a syntax error is reported as such"""
    from arpeggio import NoMatch
    from textx import TextXSyntaxError
    from textx import metamodel_from_str, TextXError
    comp, tx = parsers()
    # the compiler = the library's own entry point: the text is parsed iff no TextXSyntaxError caused by a NoMatch of
    # the grammar parser comes out (complaints of the later phases mean it was parsed)
    try:
        metamodel_from_str(text)
        a = True
    except TextXSyntaxError as e:
        a = not isinstance(e.__cause__, NoMatch)
    except TextXError:
        a = True
    except RecursionError:
        a = 'RecursionError'
    except Exception:
        a = True        # not a parse-phase verdict (C23 judges exception types)
    if a is not True or True:
        # the stand-alone grammar parser must agree with the entry point
        try:
            comp.parse(text)
            a2 = True
        except NoMatch:
            a2 = False
        except RecursionError:
            a2 = 'RecursionError'
        if a2 != a and isinstance(a, bool) and isinstance(a2, bool):
            a = 'entry point %s / grammar parser %s' % ('parses' if a else 'rejects', 'parses' if a2 else 'rejects')
    try:
        tx.grammar_model_from_str(text)
        b = True
    except TextXSyntaxError:
        b = False
    except RecursionError:
        b = 'RecursionError'
    except Exception as e:
        b = 'exception %s: %s' % (type(e).__name__, str(e)[:60])
    return a, b


def tokens(t):
    return re.findall(r"\s+|\w+|'(?:\\.|[^'])*'|\"(?:\\.|[^\"])*\"|/(?:\\.|[^/])*/|.", t, re.S)


def ddmin(text, verdict):
    """shrink to a minimal token sequence with the same (a, b) verdict"""
    toks = tokens(text)
    n = 2
    steps = 0
    while len(toks) >= 2 and steps < 400:
        chunk = max(1, len(toks) // n)
        reduced = False
        for start in range(0, len(toks), chunk):
            cand = toks[:start] + toks[start + chunk:]
            steps += 1
            if cand and accepts(''.join(cand)) == verdict:
                toks = cand
                n = max(n - 1, 2)
                reduced = True
                break
        if not reduced:
            if chunk == 1:
                break
            n = min(n * 2, len(toks))
    return ''.join(toks)


def construct_of(minimal, verdict):
    """mechanism key from the minimal text (names erased)"""
    k = re.sub(r"'(?:\\.|[^'])*'|\"(?:\\.|[^\"])*\"", 'S', minimal)
    k = re.sub(r'\s+', ' ', k).strip()
    return k[:60]


def classify(text, v):
    """recorded mechanism: in textx.tx a regex match is three tokens ('/' body '/') while the compiler reads it as
    one token. A divergence is attributed to it only if a copy of textx.tx in which ReMatch is a single token
    agrees with the compiler on this text."""
    if v != (True, False):
        return None
    if 'alt' not in _cache:
        import os
        import textx
        from textx import metamodel_from_str
        with open(os.path.join(os.path.dirname(textx.__file__), 'textx.tx'), encoding='utf-8') as f:
            g = f.read()
        old = "'/' match=/((\\\\/)|[^\\/])*/ '/'"
        if old not in g:
            _cache['alt'] = None
        else:
            _cache['alt'] = metamodel_from_str(g.replace(old, "match=/\\/((?:(?:\\\\\\/)|[^\\/])*)\\//"))
    alt = _cache['alt']
    if alt is None:
        return None
    from textx import TextXSyntaxError
    try:
        alt.model_from_str(text)
        return 'rematch-three-tokens'
    except TextXSyntaxError:
        return None
    except Exception:
        return None


def check(ctx, text, rep, kind, snippet=False):
    ctx.count('texts')
    if snippet:
        ctx.count('targeted_snippets')
    with ctx.time_limit(20):
        v = accepts(text)
        a, b = v
        interesting = ('[' in text or '|+' in text or '~' in text)
        ctx.case(text, (a is True or b is True) and interesting, {'text': text[:300], 'compiler': a, 'textx.tx': b} if ctx.evaluations % 3000 == 2 else None)
        if a is True and b is True:
            ctx.count('accepted_by_both')
        elif a is False and b is False:
            ctx.count('rejected_by_both')
        if a != b:
            mini = ddmin(text, v)
            ctx.violation(classify(text, v), 'compiler %s / textx.tx %s for a grammar text; minimal form: %r' % (
                'accepts' if a is True else ('rejects' if a is False else a), 'accepts' if b is True else ('rejects' if b is False else b), mini[:120]),
                {'text': text, 'minimal': mini, 'construct': construct_of(mini, v)}, rep)


def one(ctx, i, rep=None):
    from tv.ggen import G
    from tv.props.c03 import Gen
    rep = rep or {'i': i}
    r = ctx.rng('t', i)
    k = i % 5
    seeds = F.repo_seeds()
    if k == 0 and seeds:
        base, kind = r.choice(seeds), 'repository grammar'
    elif k == 1:
        base, kind = RP.pr_grammar(Gen(r).grammar()), 'generated'
    elif k == 2:
        g = G(r, 0.0, pskip=0.3, pws=0.15, pcomment=0.4)
        g.lit_style = r.choice(['plain', 'rich'])
        base, kind = RP.pr_grammar(g.grammar()), 'generated'
    else:
        base, kind = r.choice(SNIPPETS), 'snippet'
    check(ctx, base, rep, kind, snippet=(kind == 'snippet'))
    for _ in range(2):
        check(ctx, F.mutate_text(base, r), rep, kind + ' mutated', snippet=(kind == 'snippet'))
    s2 = r.choice(SNIPPETS)
    check(ctx, s2 + '\n' + r.choice(SNIPPETS), rep, 'two snippets', snippet=True)
    for _ in range(3):
        ctx.count('template_texts')
        check(ctx, template_text(r), rep, 'template', snippet=True)


def run(ctx):
    for i in ctx.indices(2400 if ctx.tier == 'quick' else 120000, 'random'):
        one(ctx, i)


def replay(ctx, rep):
    one(ctx, rep['i'], rep)

"""C29 - graph exports are well-formed for any model and metamodel."""
import io
import os
import shutil
import subprocess
import tempfile

from tv import dotparse as D
from tv import refpeg as RP

ID = 'C29'
LEVEL = 'exploration'
QUICK_S = 60
THOROUGH_S = 900
TECHNIQUE = ('runtime monitoring: every export is parsed by an independent strict DOT parser (and cross-checked with the '
             'Graphviz binary when present), node statements are matched against the identities of the exported objects / '
             'the classes of the metamodel; PlantUML output is checked for balance and class declarations')
RULE = ('models of a grammar whose name and value attributes are STRINGs, filled with hostile text (quotes, backslashes, '
        'braces, pipes, angle brackets, newlines, unicode, long strings), primitive lists, lists mixing objects and primitives, '
        'references, nested objects, multi-file models (subgraphs); metamodels from the random grammar generators (rich '
        'literals) exported through metamodel_export / the DotRenderer and PlantUmlRenderer and through the registered '
        'generators. Oracle: DOT parses; every model object (contained or referenced) has a node statement with its id and a '
        'brace-balanced record label; every common/abstract class has a node / a PlantUML class declaration; PlantUML has '
        'one @startuml/@enduml pair, balanced braces outside the legend and balanced legend markers. distinct = (export kind, '
        'structure, hostile character classes present); non-trivial = hostile characters or a mixed list present')
REQUIRED = {'model_exports': 300, 'metamodel_dot_exports': 100, 'plantuml_exports': 100, 'hostile_strings': 500,
            'mixed_lists': 50, 'multi_file_exports': 30, 'nodes_checked': 2000,
            'models_with_value_equal_user_objects': 50, 'models_with_falsy_user_objects': 30,
            'models_with_property_backed_user_objects': 30, 'models_with_slots_user_objects': 30, 'string_model_exports': 50,
            'models_referring_to_builtin_objects': 50}

GRAMMAR = '''
Model: imports*=Import objs*=Obj;
Import: 'import' importURI=STRING;
Obj: 'obj' name=Name ('val' val=STRING)? ('num' num=INT)? ('vals' vals+=STRING[','])? ('mix' mix+=Mixed[','])?
     ('ref' ref=[Obj:Name])? ('kids' '{' kids*=Obj '}')?;
Name: STRING | ID;
Mixed: Sub | STRING | INT;
Sub: 'sub' name=ID ('of' of=[Obj:Name])?;
'''
HOSTILE = ['"', "'", '\\', '{', '}', '|', '<', '>', '\n', '?', 'é', '\\"', '\\\\', '}|{', '<b>', ']', '[', ';', '->', '\t', '%', '&amp;',
           'a' * 30, '"' * 3, '\\' * 5, 'x\\', '\\n', '$', '#', ':', '\r']
_dot = [None]


def have_dot():
    if _dot[0] is None:
        _dot[0] = os.path.exists('/usr/bin/dot')
    return _dot[0]


def dot_binary_ok(text):
    try:
        r = subprocess.run(['/usr/bin/dot', '-Tcanon'], input=text, capture_output=True, text=True, timeout=30)
    except Exception:
        return None
    return r.returncode == 0 and 'syntax error' not in r.stderr.lower()


def enc(s):
    return '"' + s.replace('\\', '\\\\').replace('"', '\\"') + '"' if False else '"' + s.replace('"', '\\"') + '"'


def hostile(r):
    n = r.randint(1, 4)
    s = ''.join(r.choice(HOSTILE + ['a', 'b', ' ', 'name']) for _ in range(n))
    # the STRING rule only escapes its own quote: a value must not end in a backslash
    return s.rstrip('\\') or 'q'


def gen_model(r, prefix, depth=0, names=None, count=None):
    names = names if names is not None else []
    out = ''
    for _ in range(r.randint(1, 3)):
        nm = '%s%d' % (prefix, len(names))
        hn = hostile(r) if r.random() < 0.5 else None
        shown = enc(hn + nm) if hn is not None else nm
        names.append(shown)
        out += 'obj %s' % shown
        if count is not None and hn is not None:
            count[0] += 1
        if r.random() < 0.6:
            out += ' val %s' % enc(hostile(r))
            if count is not None:
                count[0] += 1
        if r.random() < 0.3:
            out += ' num %d' % r.randint(-5, 5)
        if r.random() < 0.4:
            out += ' vals ' + ' , '.join(enc(hostile(r)) for _ in range(r.randint(1, 3)))
        if r.random() < 0.4:
            parts = []
            for k in range(r.randint(1, 4)):
                c = r.random()
                if c < 0.4:
                    parts.append('sub s%d' % len(names) + str(k))
                elif c < 0.8:
                    parts.append(enc(hostile(r)))
                else:
                    parts.append(str(r.randint(0, 9)))
            out += ' mix ' + ' , '.join(parts)
            if count is not None:
                count[1] += 1
        if names and r.random() < 0.4:
            out += ' ref %s' % r.choice(names)
        if depth < 2 and r.random() < 0.3:
            out += ' kids { %s }' % gen_model(r, prefix, depth + 1, names, count)
        out += '\n'
    return out


def all_objects(m):
    seen = {}
    todo = [m]
    while todo:
        o = todo.pop()
        if id(o) in seen or not hasattr(type(o), '_tx_attrs') or isinstance(o, (str, int, float, bool)):
            continue
        seen[id(o)] = o
        for a in type(o)._tx_attrs:
            v = getattr(o, a, None)
            todo.extend(v if isinstance(v, list) else [v])
    return seen


def check_dot(ctx, text, what, wit, rep, expect_ids=None, expect_labels=None):
    try:
        p = D.parse(text)
    except D.DotError as e:
        ok2 = dot_binary_ok(text) if have_dot() else None
        if ok2 is True:
            ctx.count('oracle_disagreement_own_parser_rejects_dot_accepts')
            raise RuntimeError('harness: own DOT parser rejects what graphviz accepts: %s' % e)
        ctx.violation(None, '%s is not valid DOT: %s' % (what, str(e)[:160]), dict(wit, output=text[:3000]), rep)
        return False
    if have_dot() and ctx.rng('dotbin', len(text)).random() < 0.15:
        ok2 = dot_binary_ok(text)
        ctx.count('graphviz_cross_checks')
        if ok2 is False:
            ctx.violation(None, '%s is rejected by graphviz (dot -Tcanon)' % what, dict(wit, output=text[:3000]), rep)
            return False
    ids = {n[0]: n[1] for n in p.nodes}
    for i_, desc in (expect_ids or {}).items():
        ctx.count('nodes_checked')
        if str(i_) not in ids:
            ctx.violation(None, '%s has no node statement for %s' % (what, desc), dict(wit, output=text[:3000]), rep)
            return False
        lab = ids[str(i_)].get('label', '')
        if not D.record_label_ok(lab):
            ctx.violation(None, '%s: record label of %s has unbalanced braces: %r' % (what, desc, lab[:80]), dict(wit, output=text[:3000]), rep)
            return False
    if expect_labels:
        labels = [a.get('label', '') for _, a in p.nodes]
        for name in expect_labels:
            ctx.count('nodes_checked')
            if not any(l.startswith('{' + name + '|') or l.startswith('{*' + name + '|') for l in labels):
                ctx.violation(None, '%s has no node for class %s' % (what, name), dict(wit, output=text[:3000]), rep)
                return False
    return True


def check_plantuml(ctx, text, classes, wit, rep):
    wit = dict(wit, output=text[:3000])
    if text.count('@startuml') != 1 or text.count('@enduml') != 1 or not text.rstrip().endswith('@enduml'):
        ctx.violation(None, 'PlantUML output does not have exactly one @startuml ... @enduml pair', wit, rep)
        return
    lines = text.split('\n')
    in_legend = False
    depth = 0
    nleg = 0
    for ln in lines:
        s = ln.strip()
        if s == 'legend':
            if in_legend:
                ctx.violation(None, 'PlantUML: nested legend', wit, rep)
                return
            in_legend = True
            nleg += 1
            continue
        if s == 'end legend':
            if not in_legend:
                ctx.violation(None, 'PlantUML: "end legend" without legend', wit, rep)
                return
            in_legend = False
            continue
        if not in_legend:
            depth += s.count('{') - s.count('}')
            if depth < 0:
                ctx.violation(None, 'PlantUML: unbalanced braces', wit, rep)
                return
    if in_legend or depth != 0:
        ctx.violation(None, 'PlantUML: %s' % ('legend not closed' if in_legend else 'unbalanced braces'), wit, rep)
        return
    for fqn in classes:
        if not any(ln.startswith('class %s ' % fqn) for ln in lines):
            ctx.violation(None, 'PlantUML output does not declare class %s' % fqn, wit, rep)
            return


def one(ctx, i, rep=None):
    from textx import metamodel_from_str, TextXError
    from textx.export import metamodel_export_tofile, model_export_to_file, PlantUmlRenderer, DotRenderer
    import textx.scoping.providers as sp
    rep = rep or {'i': i}
    r = ctx.rng('x', i)
    kind = i % 3
    if kind in (0, 1):
        # ---- model export ----
        two = (i % 6 == 1)
        count = [0, 0]
        tmp = tempfile.mkdtemp(prefix='tvc29_')
        try:
            texts = [gen_model(r, 'a', count=count)]
            if two:
                texts.append(gen_model(r, 'b', count=count))
                texts[0] = 'import "other.m"\n' + texts[0]
            for nm, t in zip(['main.m', 'other.m'], texts):
                with open(os.path.join(tmp, nm), 'w') as f:
                    f.write(t)
            classes = []
            cv = (i // 6) % 6
            if cv == 1:
                # user class whose instances are falsy (an empty container-like object)
                class Sub:
                    def __init__(self, parent=None, name=None, of=None):
                        self.parent, self.name, self.of = parent, name, of

                    def __len__(self):
                        return 0
                classes = [Sub]
                ctx.count('models_with_falsy_user_objects')
            if cv in (2, 3):
                # user classes with value semantics: distinct objects compare equal (cv 2: hashable, cv 3: unhashable)
                class Sub:
                    def __init__(self, parent=None, name=None, of=None):
                        self.parent, self.name, self.of = parent, name, of

                    def __eq__(self, other):
                        return type(other) is type(self)
                    __hash__ = (lambda self: 7) if cv == 2 else None
                classes = [Sub]
                ctx.count('models_with_value_equal_user_objects')
            if cv == 4:
                # user class that keeps the grammar attributes under other names and exposes them through read-only properties
                class Sub:
                    def __init__(self, parent=None, name=None, of=None):
                        self._p, self._n, self._o = parent, name, of
                    parent = property(lambda self: self._p)
                    name = property(lambda self: self._n)
                    of = property(lambda self: self._o)
                classes = [Sub]
                ctx.count('models_with_property_backed_user_objects')
            if cv == 5:
                # user class without an instance dictionary
                class Sub:
                    __slots__ = ('parent', 'name', 'of', '__weakref__')

                    def __init__(self, parent=None, name=None, of=None):
                        self.parent, self.name, self.of = parent, name, of
                classes = [Sub]
                ctx.count('models_with_slots_user_objects')
            # the exported model is a string model: alone (i % 12 == 10) or of a metamodel whose global repository already
            # holds a file model (i % 12 == 4)
            strmode = {4: 'global', 10: 'alone'}.get(i % 12)
            mmkw = {}
            if i % 12 == 0:
                # library objects given as builtins: they belong to no exported model and are reached through references only
                helper = metamodel_from_str(GRAMMAR)
                lib = helper.model_from_str('obj bi1 val "lib|{1}" kids { obj bikid } obj bi2 num 3')
                mmkw['builtins'] = {o.name: o for o in lib.objs}
                texts[0] += 'obj usesbi ref bi1\nobj usesbi2 mix sub sb of bi2 , "s"\n'
                with open(os.path.join(tmp, 'main.m'), 'w') as f:
                    f.write(texts[0])
                ctx.count('models_referring_to_builtin_objects')
            mm = metamodel_from_str(GRAMMAR, classes=classes, global_repository=strmode == 'global', **mmkw)
            mm.register_scope_providers({'*.*': sp.PlainNameImportURI()})
            try:
                m = mm.model_from_file(os.path.join(tmp, 'main.m'))
                if strmode:
                    texts.append(gen_model(r, 's', count=count))
                    m = mm.model_from_str(texts[-1])
                    ctx.count('string_model_exports')
            except TextXError as e:
                ctx.count('harness_models_rejected')
                return
            ctx.count('model_exports')
            ctx.count('hostile_strings', count[0])
            ctx.count('mixed_lists', count[1])
            if two:
                ctx.count('multi_file_exports')
            buf = io.StringIO()
            wit = {'files': texts}
            try:
                model_export_to_file(buf, m)
            except Exception as e:
                ctx.violation(None, 'model export raised %s: %s' % (type(e).__name__, str(e)[:100]), wit, rep)
                return
            objs = {}
            models = [m]
            repo = getattr(m, '_tx_model_repository', None)
            if repo is not None:
                models += [x for x in repo.all_models if x is not m]
            for mo in models:
                objs.update(all_objects(mo))
            exp = {k: '%s %r' % (type(o).__name__, getattr(o, 'name', None)) for k, o in objs.items()}
            ok = check_dot(ctx, buf.getvalue(), 'model export', wit, rep, expect_ids=exp)
            cls = tuple(sorted({c for t in texts for c in t if not c.isalnum() and not c.isspace()}))
            ctx.case(('model', cls, two, len(objs)), count[0] > 0 or count[1] > 0, {'model': texts[0][:300]} if ctx.evaluations < 2 else None)
            if ok and r.random() < 0.3 and not strmode:
                # through the registered generator (it names its output after the model file) for any model
                from textx import generator_for_language_target
                gen = generator_for_language_target('any', 'dot')
                outdir = os.path.join(tmp, 'out')
                os.makedirs(outdir)
                gen(mm, m, outdir, True, False)
                with open(os.path.join(outdir, 'main.dot'), encoding='utf-8') as f:
                    check_dot(ctx, f.read(), 'generator any->dot', wit, rep, expect_ids=exp)
        finally:
            shutil.rmtree(tmp, ignore_errors=True)
    else:
        # ---- metamodel exports ----
        from tv.ggen import G
        from tv.props.c03 import Gen
        if i % 2:
            gen_ = G(r, 0.0, pskip=0.2, pws=0.1, pcomment=0.3)
            gen_.lit_style = 'rich'
            g = gen_.grammar()
        else:
            g = Gen(r).grammar()
        text = RP.pr_grammar(g)
        # hostile literals in match rules
        extra = "\nHostile: %s | %s;\n" % (', '.join([]) or RP.q(hostile(r)), RP.q(hostile(r)))
        text = text + extra.replace('\n', '\n')
        try:
            mm = metamodel_from_str(text)
        except TextXError:
            ctx.count('harness_grammars_rejected')
            return
        kinds = RP.rule_kinds(g)
        wit = {'grammar': text}
        names = [n for n, k in kinds.items() if k in ('common', 'abstract')]
        buf = io.StringIO()
        try:
            metamodel_export_tofile(mm, buf)
        except Exception as e:
            ctx.violation(None, 'metamodel export raised %s: %s' % (type(e).__name__, str(e)[:100]), wit, rep)
            return
        ctx.count('metamodel_dot_exports')
        check_dot(ctx, buf.getvalue(), 'metamodel DOT export', wit, rep, expect_labels=names)
        buf = io.StringIO()
        try:
            metamodel_export_tofile(mm, buf, renderer=PlantUmlRenderer())
        except Exception as e:
            ctx.violation(None, 'PlantUML export raised %s: %s' % (type(e).__name__, str(e)[:100]), wit, rep)
            return
        ctx.count('plantuml_exports')
        check_plantuml(ctx, buf.getvalue(), names, wit, rep)
        ctx.case(('metamodel', P_skel(g)), True, {'grammar': text[:300]} if ctx.evaluations < 4 else None)


def P_skel(g):
    from tv import pegdiff as P
    return P.skeleton(g)


def run(ctx):
    for i in ctx.indices(1800 if ctx.tier == 'quick' else 30000, 'random'):
        one(ctx, i)


def replay(ctx, rep):
    one(ctx, rep['i'], rep)

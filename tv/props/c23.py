"""C23 - invalid grammars are always reported as textX errors."""
import glob
import os
import re
import traceback

from tv import refpeg as RP

ID = 'C23'
LEVEL = 'exploration'
QUICK_S = 60
THOROUGH_S = 1200
TECHNIQUE = ('runtime monitoring: exception-type oracle on metamodel_from_str under mutation fuzzing (token and character level '
             'mutations plus targeted injections) of generated grammars, of every .tx file of the repository and of the fenced '
             'grammars in the documentation; a violation is keyed by (exception type, innermost textX function)')
RULE = ('seeds: random grammars from the C01 / C03 generators (full syntax incl. link references, RREL, modifiers), all *.tx '
        'files under /repo, grammar blocks in docs/; each seed is used as is and under 1-3 mutations: token '
        'drop/duplicate/swap/replace, character drop/insert/replace, targeted injections (undefined rule reference, invalid '
        'regex, rule parameters with and without values, unknown parameters, self/mutually referencing rules, random graphs of alias rules (chains, cycles, chains leading into cycles), bad RREL, bad '
        'string escapes, repetition operators/modifiers on every kind of operand, base type redefinition, empty alternatives). '
        'Oracle: returns a metamodel or raises a TextXError subclass with a non-empty message (AssertionError only for an '
        'import statement in a string grammar). distinct = grammar text; non-trivial = the text was rejected')
REQUIRED = {'texts': 10000, 'rejected_with_textx_error': 2000, 'accepted': 500, 'repo_seed_files': 20, 'targeted_injections': 1000,
            'alias_graphs': 1000}

_SEEDS = None


def repo_seeds():
    global _SEEDS
    if _SEEDS is None:
        out = []
        root = os.environ.get('TV_REPO') or '/repo'
        for p in sorted(glob.glob(os.path.join(root, '**', '*.tx'), recursive=True)):
            try:
                with open(p, encoding='utf-8') as f:
                    t = f.read()
                if len(t) < 6000:
                    out.append(t)
            except Exception:
                pass
        for p in sorted(glob.glob(os.path.join(root, 'docs', '**', '*.md'), recursive=True)):
            try:
                with open(p, encoding='utf-8') as f:
                    t = f.read()
            except Exception:
                continue
            for m in re.finditer(r'```(?:\w*)\n(.*?)```', t, re.S):
                b = m.group(1)
                if re.search(r'^\s*\w+\s*:', b, re.M) and ';' in b and len(b) < 3000:
                    out.append(b)
        _SEEDS = out
    return _SEEDS


INJECT = [
    "\nX9[ws='\\xZZ ']: 'a' 'b';\n", "\nX9[ws='\\N{foo}\\t']: 'a';\n", "\nX9[ws='\\u12 ']: 'a';\n", "\nX9[ws='\\U00110000']: 'a';\n",
    "\nX9[skipws, ws='\\x']: 'a';\n", "\nX9[ws='\\']: 'a';\n", "\nX9[ws='\\n\\q']: 'a';\n", "\nX9[split='\\xZZ']: ID;\n",
    "\n__asgn_plain: 'x';\n", "\n__asgn_list: 'x' a=INT;\n", "\nX9: __asgn_plain;\n",
    "\nX9: /x{4294967295}/;\n", "\nX9: /\\w{99999999999,}/;\n", "\nX9: a+=INT[/,{1,99999999999}/];\n", "\nX9: /" + "(" * 120 + "a" + ")" * 120 + "/;\n",
    "\nX9: /(?<=a+)b/;\n", "\nX9: /(?P<1>a)/;\n", "\nX9: /\\p{L}/;\n", "\nX9: /[[:alpha:]]/;\n", "\nX9: /(?i)a(?-i)b/;\n",
    "\nX9: /(/;\n", "\nX9: /[a-/;\n", "\nX9: /a{2,1}/;\n", "\nX9: /(?P<n>a)(?P<n>b)/;\n", "\nX9[ws]: 'a';\n", "\nX9[nows]: 'a';\n",
    "\nX9[skipws='x']: 'a';\n", "\nX9[ws=5]: 'a';\n", "\nX9[foo]: 'a';\n", "\nX9[split]: ID;\n", "\nX9[split='']: ID;\n",
    "\nX9[noskipws, ws='\\t']: 'a';\n", "\nX9: '\\N{foo}';\n", "\nX9: '\\xzz';\n", "\nX9: '\\u12';\n", "\nX9: \"\\N{}\";\n",
    "\nX9: '\\777777';\n", "\nX9: Y9#; Y9: 'x';\n", "\nX9: t#INT;\n", "\nX9: 'a'#;\n", "\nX9: ('a' 'b')#[','];\n", "\nX9: X9;\n",
    "\nX9: Y9; Y9: X9;\n", "\nW9: X9; X9: Y9; Y9: X9;\n", "\nV9: W9; W9: X9; X9: Y9; Y9: Z9; Z9: X9;\n", "\nX9: Y9; Y9: Y9;\n", "\nX9: Y9 | X9; Y9: Z9; Z9: X9;\n", "\nX9: X9 'a' | 'b';\n", "\nX9: a=X9;\n", "\nX9: NoSuchRule;\n",
    "\nX9: a=[NoSuchRule];\n", "\nX9: a=[X9|ID|];\n", "\nX9: a=[X9:ID|+q:a];\n", "\nX9: a=[X9:ID|a..b*];\n", "\nX9: a=[X9:ID|parent()];\n",
    "\nX9: a=[X9:ID|'x'~];\n", "\nX9: a=[X9:NoRule];\n", "\nX9: a=[INT];\n", "\nX9: a+=INT[eolterm ','];\n", "\nX9: a+=INT[','  ','];\n",
    "\nX9: a=INT?[','];\n", "\nX9: a?=INT*;\n", "\nX9: (a?=INT)+;\n", "\nX9: a*=INT a?=INT;\n", "\nINT: 'x';\n", "\nID: /x/;\nX9: a=ID;\n",
    "\nOBJECT: 'x';\n", "\nX9: ;\n", "\nX9: | 'a';\n", "\nX9: 'a' | ;\n", "\nX9: ();\n", "\nX9: &;\n", "\nX9: !'a'*;\n", "\nX9: 'a'-*;\n",
    "\nX9: a='a'-;\n", "\nX9: a=('a'|'b');\n", "\nX9: -'a';\n", "\nX9: 'a' X9: 'b';\n", "\nX9: a=INT;\nX9: b=INT;\n", "\nimport foo\n",
    "\nreference foo as f\n", "\nreference foo-bar\nX9: a=[f.X];\n", "\nX9: a=[f.X];\n", "\nX9: a=f.X;\n", "\nX9: 'a'**;\n", "\nX9: ''*;\n",
    "\nX9: /()*/ ;\n", "\nX9: //;\n", "\nX9: a=//;\n", "\nComment: X9; X9: Comment;\n", "\nX9: a=INT b=[X9:ID|^a*.b,c] ;\n", "\nX9: '\\\\';\n",
    "\nX9: \"unterminated;\n", "\nX9: /unterminated;\n", "\nX9: a=INT[;\n", "\n/* open comment\n", "\nX9: 'a' // trailing\n;\n", "\n\x00\n",
    "\nX9: '\ud800';\n" if False else "\nX9: '\\ud800';\n", "\nXé: 'a';\nX9: Xé;\n", "\n1X: 'a';\n", "\nX9: a.b=INT;\n", "\nX9: name=ID name=INT;\n",
]


def mutate_text(t, r):
    toks = re.findall(r"\s+|\w+|'(?:\\.|[^'])*'|\"(?:\\.|[^\"])*\"|/(?:\\.|[^/])*/|.", t, re.S)
    for _ in range(r.randint(1, 3)):
        if not toks:
            break
        op = r.randrange(9)
        k = r.randrange(len(toks))
        if op == 0:
            del toks[k]
        elif op == 1:
            toks.insert(k, toks[k])
        elif op == 2:
            j = r.randrange(len(toks))
            toks[k], toks[j] = toks[j], toks[k]
        elif op == 3:
            toks[k] = r.choice([';', ':', '|', '=', '+=', '*=', '?=', '[', ']', '(', ')', '*', '+', '?', '#', '-', '!', '&', ',', '.', '^',
                                "''", '//', 'INT', 'ID', 'OBJECT', 'eolterm', 'skipws', 'ws', "'\\'", '~', 'import', 'as'])
        elif op == 4 and len(toks[k]) > 0:
            s = toks[k]
            c = r.randrange(len(s))
            toks[k] = s[:c] + s[c + 1:]
        elif op == 5:
            s = toks[k]
            c = r.randrange(len(s) + 1)
            toks[k] = s[:c] + r.choice('/\'"\\[](){}*+?#|;:=~^.,-&! \n\t09aZ_é\x00') + s[c:]
        elif op == 6:
            toks.insert(k, r.choice(INJECT))
        elif op == 7:
            # rename a rule use to an undefined / to another rule
            ids = [x for x in range(len(toks)) if re.fullmatch(r'[A-Z]\w*', toks[x])]
            if ids:
                toks[r.choice(ids)] = r.choice(['Undefined', 'Model', 'INT', 'STRING', 'OBJECT', 'Comment', 'X9'])
        else:
            toks = toks[:k]
    return ''.join(toks)


def check(ctx, text, rep, seedkind, injected=False):
    from textx import metamodel_from_str, TextXError
    ctx.count('texts')
    if injected:
        ctx.count('targeted_injections')
    outcome = None
    try:
        with ctx.time_limit(20):
            try:
                metamodel_from_str(text)
                outcome = ('ok',)
                ctx.count('accepted')
            except TextXError as e:
                if not str(e).strip() or not getattr(e, 'message', str(e)):
                    outcome = ('empty-message', type(e).__name__)
                else:
                    outcome = ('textx', type(e).__name__)
                    ctx.count('rejected_with_textx_error')
            except AssertionError as e:
                tb = traceback.extract_tb(e.__traceback__)
                inner = [f for f in tb if os.sep + 'textx' + os.sep in f.filename]
                if 'import' in text and inner and inner[-1].name in ('_new_import', 'visit_import_stm', '_enter_namespace'):
                    outcome = ('documented-assert',)
                    ctx.count('import_in_string_grammar')
                elif 'import' in text and 'file_name' in (inner[-1].line or '') if inner else False:
                    outcome = ('documented-assert',)
                    ctx.count('import_in_string_grammar')
                else:
                    outcome = ('bad', 'AssertionError', inner[-1].name if inner else '?', str(e)[:80])
            except RecursionError as e:
                tb = traceback.extract_tb(e.__traceback__)
                inner = [f for f in tb if os.sep + 'textx' + os.sep in f.filename]
                outcome = ('bad', 'RecursionError', inner[-1].name if inner else '?', '')
            except Exception as e:
                tb = traceback.extract_tb(e.__traceback__)
                inner = [f for f in tb if os.sep + 'textx' + os.sep in f.filename]
                outcome = ('bad', type(e).__name__, inner[-1].name if inner else '?', str(e)[:80])
    except BaseException as e:
        if type(e).__name__ == 'CaseTimeout':
            outcome = None
        else:
            raise
    if outcome is None:
        return
    ctx.case(text, outcome[0] != 'ok', {'seed': seedkind, 'grammar': text[:400], 'outcome': outcome[:2]} if ctx.evaluations % 5000 == 1 else None)
    if outcome[0] == 'bad':
        key = '%s@%s' % (outcome[1], outcome[2])
        ctx.violation(KNOWN_KEYS.get(key, key), 'metamodel_from_str raised %s in %s: %s' % (outcome[1], outcome[2], outcome[3]),
                      {'grammar': text, 'seed': seedkind}, rep)
    elif outcome[0] == 'empty-message':
        ctx.violation(None, 'a %s without a message was raised' % outcome[1], {'grammar': text}, rep)


# violations are keyed by mechanism = (exception type @ innermost textX function); nothing is pre-classified as known
KNOWN_KEYS = {}


def one(ctx, i, rep=None):
    from tv.ggen import G
    from tv.props.c03 import Gen
    rep = rep or {'i': i}
    r = ctx.rng('t', i)
    k = i % 4
    seeds = repo_seeds()
    ctx.maxc('max_repo_seed_files', len(seeds))
    if k == 0 and seeds:
        base, kind = r.choice(seeds), 'repository grammar'
    elif k == 1:
        base, kind = RP.pr_grammar(Gen(r).grammar()), 'generated (abstract-heavy)'
    elif k == 2:
        g = G(r, 0.0, pskip=0.3, pws=0.15, pcomment=0.4)
        g.lit_style = r.choice(['plain', 'rich'])
        base, kind = RP.pr_grammar(g.grammar()), 'generated (full)'
    else:
        base, kind = "Model: items+=Item;\nItem: 'item' name=ID ('->' ref=[Item:FQN|^items*])? ';';\nFQN: ID('.'ID)*;\n", 'small'
    check(ctx, base, rep, kind)
    for _ in range(3):
        check(ctx, mutate_text(base, r), rep, kind + ' mutated')
    inj = r.choice(INJECT)
    pos = r.choice([0, len(base)])
    check(ctx, base[:pos] + inj + base[pos:], rep, kind + ' + injection', injected=True)
    check(ctx, 'Model: a=INT;' + inj, rep, 'injection alone', injected=True)
    # random graphs of alias rules (rules whose body is one rule reference): chains, cycles, chains leading into cycles
    n = r.randint(2, 6)
    names = ['Q%d' % k for k in range(n)]
    targets = names + ['T9', 'T9', 'INT', 'Model']
    alias = ''.join('%s: %s;\n' % (nm, r.choice(targets)) for nm in names)
    entry = r.choice(['Model: a=INT;\n', 'Model: a=%s;\n' % names[0], 'Model: %s;\n' % r.choice(names), 'Model: a=INT | b=%s;\n' % r.choice(names)])
    ctx.count('alias_graphs')
    check(ctx, entry + alias + "T9: 't' x=INT;\n", rep, 'alias rule graph', injected=True)


def run(ctx):
    for i in ctx.indices(5000 if ctx.tier == 'quick' else 170000, 'random'):
        one(ctx, i)
    ctx.count('repo_seed_files', len(repo_seeds()))


def replay(ctx, rep):
    one(ctx, rep['i'], rep)

"""C31 - generated output files are all-or-nothing."""
import builtins
import os
import shutil
import tempfile

ID = 'C31'
LEVEL = 'fault_enumeration'
QUICK_S = 45
THOROUGH_S = 600
EXHAUSTIVE_CLAIM = True
TECHNIQUE = ('runtime monitoring with fault injection: a file-object proxy installed through builtins.open counts every write / '
             'flush / close (and the final rename) on files under the output directory; one run per k raises OSError at the '
             'k-th call; directory census before and after')
RULE = ('for each built-in generator (textX->dot, textX->PlantUML, any->dot) and each model of a small corpus (grammar files of '
        'different sizes, models with 1-30 objects, a model made of three files): a clean run counts the N write/flush/close/rename calls on the target; '
        'then EVERY k in 1..N is injected (exhaustive) under two models of the file object (write-through; buffered: text '
        'written so far is lost when the flush inside flush()/close() fails, as on a full disk), with the target absent, with an older target present plus overwrite, and with the target being a symbolic link '
        '(valid + overwrite, dangling), and (every third k) with a second process that generates the same target from another input, completely, at the very moment the failure is raised. Oracle: after the failure the output directory holds no new file (target absent; with overwrite the old '
        'or the complete new content), and a following run without overwrite produces the complete file. distinct = '
        '(generator, model, k, pre-existing target); non-trivial = k > 1 (something was already written)')
REQUIRED = {'fault_points_injected': 150, 'buffered_mode_faults': 75, 'write_through_faults': 75, 'generators': 3, 'clean_runs': 10, 'multi_file_model_cases': 1, 'with_existing_target': 40, 'with_symlink_target': 20, 'with_dangling_symlink_target': 20, 'followup_runs': 100, 'with_concurrent_second_writer': 30}

GRAMMARS = [
    "Model: 'm' x=INT;",
    "Model: items+=Item;\nItem: A | B;\nA: 'a' name=ID ('->' ref=[Item])?;\nB: 'b' name=ID vals+=INT[','];\nVal: INT | STRING;\n",
    "Model: defs+=Def refs*=Ref;\nDef: 'def' name=ID ('{' subs*=Def '}')?;\nRef: 'ref' t=[Def:FQN];\nFQN: ID('.'ID)*;\nKw: 'x' | 'y' | /z+/;\n",
]
MODELS = ['def a', 'def a { def b def c { def d } } def e ref a ref e', ' '.join('def n%d' % k for k in range(30))]


class Inject(Exception):
    pass


class Proxy:
    def __init__(self, f, st):
        self._f = f
        self._st = st

    def _tick(self, what):
        st = self._st
        st['calls'] += 1
        st['log'].append(what)
        if st['fail_at'] is not None and st['calls'] == st['fail_at']:
            st['fired'] = what
            if st.get('before_fail'):
                st['before_fail']()
            raise OSError(28, 'injected failure at %s #%d' % (what, st['calls']))

    # Two models of the file object. 'through': every write reaches the file at once and only the failing call is lost.
    # 'buffered' (what a real text file does for outputs below the buffer size): written text sits in a buffer until
    # flush()/close(); when that flush fails (disk full, quota, EFBIG) the buffered text is lost and the file stays short.
    def write(self, s):
        self._tick('write')
        if self._st.get('mode') == 'buffered':
            self.__dict__.setdefault('_buf', []).append(s)
            return len(s)
        return self._f.write(s)

    def writelines(self, l):
        for x in l:
            self.write(x)

    def _drain(self):
        buf = self.__dict__.get('_buf')
        if buf:
            self._f.write(''.join(buf))
            del buf[:]

    def flush(self):
        try:
            self._tick('flush')
        except OSError:
            self.__dict__['_buf'] = []
            raise
        self._drain()
        return self._f.flush()

    def close(self):
        if not self._f.closed:
            try:
                self._tick('close')
                self._drain()
            finally:
                self._f.close()

    def __enter__(self):
        return self

    def __exit__(self, *a):
        self.close()
        return False

    def __getattr__(self, n):
        return getattr(self._f, n)


STATE = {'calls': 0, 'fail_at': None, 'log': [], 'root': None, 'fired': None, 'mode': 'through', 'before_fail': None}
_installed = [False]


def install():
    if _installed[0]:
        return
    orig_open = builtins.open
    orig_replace = os.replace
    orig_rename = os.rename

    def open_(file, *a, **k):
        mode = a[0] if a else k.get('mode', 'r')
        f = orig_open(file, *a, **k)
        try:
            p = os.path.abspath(file) if isinstance(file, (str, os.PathLike)) else None
        except Exception:
            p = None
        if p and STATE['root'] and p.startswith(STATE['root']) and any(c in mode for c in 'wax+'):
            return Proxy(f, STATE)
        return f

    def replace_(src, dst, *a, **k):
        if STATE['root'] and os.path.abspath(dst).startswith(STATE['root']):
            STATE['calls'] += 1
            STATE['log'].append('rename')
            if STATE['fail_at'] is not None and STATE['calls'] == STATE['fail_at']:
                STATE['fired'] = 'rename'
                if STATE.get('before_fail'):
                    STATE['before_fail']()
                raise OSError(28, 'injected failure at rename')
        return orig_replace(src, dst, *a, **k)

    def rename_(src, dst, *a, **k):
        if STATE['root'] and os.path.abspath(dst).startswith(STATE['root']):
            STATE['calls'] += 1
            STATE['log'].append('rename')
            if STATE['fail_at'] is not None and STATE['calls'] == STATE['fail_at']:
                STATE['fired'] = 'rename'
                if STATE.get('before_fail'):
                    STATE['before_fail']()
                raise OSError(28, 'injected failure at rename')
        return orig_rename(src, dst, *a, **k)
    builtins.open = open_
    os.replace = replace_
    os.rename = rename_
    _installed[0] = True


def norm(text):
    """node ids are object identities and differ from run to run"""
    import re
    return re.sub(r'\b\d{6,}\b', 'ID', text)


GRAMMAR_MF = "Model: imports*=Import defs+=Def refs*=Ref;\nImport: 'import' importURI=STRING;\nDef: 'def' name=ID;\nRef: 'ref' t=[Def];\n"
MF_FILES = {'main.m': 'import "lib.m"\ndef a def b ref a ref l1\n', 'lib.m': 'import "lib2.m"\ndef l1 def l2 ref l2 ref k\n', 'lib2.m': 'def k\n'}


# thorough tier only: larger models (more write calls, i.e. more fault points per run)
MODELS_MORE = [' '.join('def p%d { def q%d { def r%d } }' % (k, k, k) for k in range(12)) + ' ' + ' '.join('ref p%d' % k for k in range(12)),
               ' '.join('def w%d' % k for k in range(120))]


def corpus(tier='quick'):
    out = [('any', 'dot', 'mf', 'mf')]
    for gi, g in enumerate(GRAMMARS):
        out.append(('textX', 'dot', gi, None))
        out.append(('textX', 'PlantUML', gi, None))
    for mi in range(len(MODELS)):
        out.append(('any', 'dot', 2, mi))
    if tier == 'thorough':
        for mi in range(len(MODELS), len(MODELS) + len(MODELS_MORE)):
            out.append(('any', 'dot', 2, mi))
    return out


def run_case(ctx, ci, rep_base):
    from textx import generator_for_language_target, metamodel_for_language, metamodel_from_str
    install()
    lang, target, gi, mi = corpus(ctx.tier)[ci]
    ALLM = MODELS + MODELS_MORE
    tmp = tempfile.mkdtemp(prefix='tvc31_')
    try:
        src = os.path.join(tmp, 'src')
        out = os.path.join(tmp, 'out')
        os.makedirs(src)
        os.makedirs(out)
        gfile = os.path.join(src, 'lang%s.tx' % gi)
        with open(gfile, 'w') as f:
            f.write(GRAMMARS[gi] if gi != 'mf' else GRAMMAR_MF)
        gen = generator_for_language_target(lang, target, any_permitted=True)
        if gi == 'mf':
            # a model made of several files (import closure): the export writes one cluster per file
            import textx.scoping.providers as sp
            mm = metamodel_from_str(GRAMMAR_MF)
            mm.register_scope_providers({'*.*': sp.PlainNameImportURI()})
            for nm, t in MF_FILES.items():
                with open(os.path.join(src, nm), 'w') as f:
                    f.write(t)
            model = mm.model_from_file(os.path.join(src, 'main.m'))
            base = 'main.dot'
            ctx.count('multi_file_model_cases')
        elif lang == 'textX':
            mm = metamodel_for_language('textx')
            model = mm.model_from_file(gfile)
            ext = 'dot' if target == 'dot' else 'pu'
            base = 'lang%d.%s' % (gi, ext)
        else:
            mm = metamodel_from_str(GRAMMARS[gi])
            mfile = os.path.join(src, 'model%d.m' % mi)
            with open(mfile, 'w') as f:
                f.write(ALLM[mi])
            model = mm.model_from_file(mfile)
            base = 'model%d.dot' % mi
        tpath = os.path.join(out, base)
        # a second input with the same base name (other directory, other content): what another process generating the
        # same target at the same time works on
        src2 = os.path.join(tmp, 'src2')
        os.makedirs(src2)
        if gi == 'mf':
            for nm, t in MF_FILES.items():
                with open(os.path.join(src2, nm), 'w') as f:
                    f.write(t.replace('def a def b', 'def zz def a def b def yy') if nm == 'main.m' else t)
            mm2 = mm
            model2 = mm.model_from_file(os.path.join(src2, 'main.m'))
        elif lang == 'textX':
            with open(os.path.join(src2, os.path.basename(gfile)), 'w') as f:
                f.write("Other: 'o' z=INT;\n" + GRAMMARS[(gi + 1) % len(GRAMMARS)])
            mm2 = mm
            model2 = mm.model_from_file(os.path.join(src2, os.path.basename(gfile)))
        else:
            with open(os.path.join(src2, os.path.basename(mfile)), 'w') as f:
                f.write('def other_first ' + ALLM[(mi + 1) % len(ALLM)])
            mm2 = mm
            model2 = mm.model_from_file(os.path.join(src2, os.path.basename(mfile)))
        child_status = [None]

        def second_writer():
            # runs at the fault point of the failing run, i.e. while that run has its output open: a healthy run of another
            # process (own pid) generates the same target with overwrite and finishes; then the failure is raised
            pid = os.fork()
            if pid == 0:
                rc = 3
                try:
                    STATE.update(fail_at=None, root=None, before_fail=None)
                    gen(mm2, model2, out, True, False)
                    rc = 0
                except BaseException:
                    rc = 4
                finally:
                    os._exit(rc)
            _, st = os.waitpid(pid, 0)
            child_status[0] = os.waitstatus_to_exitcode(st)

        def run(fail_at, overwrite, mode='through', concurrent=False):
            STATE.update(calls=0, fail_at=fail_at, log=[], root=os.path.abspath(out), fired=None, mode=mode,
                         before_fail=second_writer if concurrent else None)
            child_status[0] = None
            try:
                gen(mm, model, out, overwrite, False)
                return None
            except OSError as e:
                return e
            finally:
                STATE['root'] = None
                STATE['fail_at'] = None
                STATE['before_fail'] = None
        err = run(None, False)
        ctx.count('clean_runs')
        if err is not None or not os.path.exists(tpath):
            raise RuntimeError('harness: clean run failed: %r' % err)
        with open(tpath, encoding='utf-8') as f:
            complete = norm(f.read())
        n = STATE['calls']
        os.remove(tpath)
        STATE.update(calls=0, fail_at=None, log=[], root=None, fired=None, mode='through', before_fail=None)
        gen(mm2, model2, out, False, False)
        with open(tpath, encoding='utf-8') as f:
            complete2 = norm(f.read())
        if complete2 == complete or complete2.startswith(complete) or complete.startswith(complete2):
            raise RuntimeError('harness: the second input must give another output')
        ctx.note('calls_in_clean_run_%s_%s_%s' % (lang, target, gi if mi is None else 'm%s' % mi), n)
        os.remove(tpath)
        store = os.path.join(tmp, 'store')
        os.makedirs(store)
        for k, mode in [(k, mode) for k in range(1, n + 1) for mode in ('through', 'buffered')]:
            for existing in (False, True, 'symlink', 'dangling', 'concurrent'):
                if existing == 'concurrent' and k % 3 != 1 and k < n - 2:
                    continue
                if existing is True and k % 2 == 0 and k < n - 3:
                    continue
                if existing in ('symlink', 'dangling') and (k + (mode == 'buffered')) % 3 and k < n - 2:
                    continue
                for dd in (out, store):
                    for fn in os.listdir(dd):
                        os.remove(os.path.join(dd, fn))
                old = norm('OLD CONTENT\n')
                spath = os.path.join(store, base)
                if existing is True or existing == 'concurrent':
                    with open(tpath, 'w') as f:
                        f.write(old)
                    ctx.count('with_existing_target' if existing is True else 'with_concurrent_second_writer')
                elif existing == 'symlink':
                    with open(spath, 'w') as f:
                        f.write(old)
                    os.symlink(spath, tpath)
                    ctx.count('with_symlink_target')
                elif existing == 'dangling':
                    os.symlink(spath, tpath)
                    ctx.count('with_dangling_symlink_target')
                err = run(k, existing in (True, 'symlink', 'concurrent'), mode, concurrent=existing == 'concurrent')
                if existing == 'concurrent' and child_status[0] != 0:
                    ctx.count('second_writer_did_not_finish')
                    continue
                ctx.count('buffered_mode_faults' if mode == 'buffered' else 'write_through_faults')
                ctx.count('fault_points_injected')
                rep = dict(rep_base, ci=ci)
                wit = {'generator': '%s->%s' % (lang, target), 'input': base, 'fail_at_call': k, 'of_calls': n, 'call_kind': STATE['fired'],
                       'target_existed_before': existing, 'file_model': mode, 'directory_after': sorted(os.listdir(out)),
                       'linked_directory_after': sorted(os.listdir(store))}
                ctx.case((lang, target, gi, mi, k, existing, mode), k > 1, wit if ctx.evaluations < 3 else None)
                if err is None:
                    ctx.violation(None, 'the injected failure at call %d/%d was swallowed' % (k, n), wit, rep)
                    continue
                left = sorted(os.listdir(out))
                if existing is False or existing == 'dangling':
                    regular = [fn for fn in left if not os.path.islink(os.path.join(out, fn))] + \
                        ['store/' + fn for fn in os.listdir(store)]
                    if regular:
                        sizes = {fn: os.path.getsize(os.path.join(tmp, fn) if fn.startswith('store/') else os.path.join(out, fn)) for fn in regular}
                        ctx.violation(None, '%s->%s: failure at %s #%d of %d leaves %r behind (complete output has %d bytes)%s' % (
                            lang, target, STATE['fired'], k, n, sizes, len(complete.encode('utf-8')),
                            ' [target was a dangling symbolic link]' if existing else ''), wit, rep)
                        continue
                    for fn in left:
                        os.remove(os.path.join(out, fn))
                else:
                    content = None
                    if os.path.exists(tpath):
                        with open(tpath, encoding='utf-8') as f:
                            content = norm(f.read())
                    linked = None
                    if existing == 'symlink' and os.path.exists(spath):
                        with open(spath, encoding='utf-8') as f:
                            linked = norm(f.read())
                    allowed = (old, complete, complete2) if existing == 'concurrent' else (old, complete)
                    if left != [base] or content not in allowed or (existing == 'symlink' and linked not in (old, complete)):
                        ctx.violation(None, '%s->%s with overwrite%s: failure at %s #%d of %d leaves %r, target holds %s' % (
                            lang, target, ' (target is a symbolic link)' if existing == 'symlink' else '', STATE['fired'], k, n, left,
                            'neither the old nor a complete new content (%d bytes)%s' % (len(content or linked or ''),
                                ' [a second process generated the same target, completely, while this run was failing]' if existing == 'concurrent' else '')
                            if (content not in allowed or linked not in (None, old, complete)) else 'ok'), wit, rep)
                        continue
                    os.remove(tpath)
                # follow-up run without overwrite
                err2 = run(None, False)
                ctx.count('followup_runs')
                ok = err2 is None and os.path.exists(tpath)
                if ok:
                    with open(tpath, encoding='utf-8') as f:
                        ok = norm(f.read()) == complete
                if not ok:
                    ctx.violation(None, '%s->%s: the run after a failed one (no --overwrite) does not produce the complete file' % (lang, target), wit, rep)
    finally:
        shutil.rmtree(tmp, ignore_errors=True)


def run(ctx):
    cs = corpus(ctx.tier)
    ctx.count('generators', 0)
    for ci in ctx.indices(len(cs), 'corpus', exhaustive=True):
        run_case(ctx, ci, {})
    if ctx.shard == 0:
        ctx.count('generators', len({(c[0], c[1]) for c in cs}))


def one(ctx, i, rep=None):
    run_case(ctx, i % len(corpus(ctx.tier)), rep or {})


def replay(ctx, rep):
    run_case(ctx, rep['ci'], rep)

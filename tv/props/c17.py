"""C17 - multi-file models load each file once and share element identity."""
import os
import shutil
import tempfile

from tv import mfiles as M

ID = 'C17'
LEVEL = 'exploration'
QUICK_S = 60
THOROUGH_S = 300
TECHNIQUE = ('runtime monitoring: builtins.open spy (opens per file per top-level load), identity census over every reachable '
             'model repository, reference lookup-order oracle with deliberately colliding names')
RULE = ('random directories of 2-7 model files in up to 3 sub-directories with random import graphs (cycles, diamonds, '
        'self-imports, relative paths, glob imports), unique and colliding definition names; providers: PlainNameImportURI, '
        'FQNImportURI, ImportURI with search_path, grammar RREL +m:, PlainNameGlobalRepo; with/without metamodel global '
        'repository and builtin models. Per top-level load: every file of the import closure opened exactly once and no '
        'other; one model object per file across all repositories; every reference points into the model object of the '
        'file chosen by the documented order (model, its imports in order, builtin models); with a global repository a '
        'repeated load returns the cached object without opening files and later loads share the cached files. One case in ten: '
        'FQNImportURI(importAs=True) with named / unnamed / repeated imports of 2-4 colliding library files, some loaded before '
        '(by another file of the load, by an earlier load of a global repository): plain names resolve through own definitions '
        'then unnamed imports in order, named imports only through their name, out-of-scope names fail. One case in ten: two metamodel objects sharing one GlobalModelRepository load overlapping closures alternately. distinct = '
        '(import graph shape, provider, repository mode); non-trivial = graph has a cycle, a diamond or a colliding name')
REQUIRED = {'top_level_loads': 300, 'files_open_checked': 800, 'references_checked': 500, 'cyclic_graphs': 30,
            'colliding_names_resolved': 50, 'cached_reloads': 30, 'builtin_model_resolutions': 10, 'glob_imports': 10,
            'search_path_loads': 10, 'rrel_m_loads': 10, 'search_path_shadow_cases': 50, 'named_import_cases': 50,
            'named_import_references_checked': 200, 'references_through_import_name': 50, 'out_of_scope_names_checked': 20,
            'shared_repository_cases': 50, 'shared_repository_references': 100}

PROVIDERS = ['plain', 'fqn', 'search', 'rrel', 'globalrepo']


def all_models_reachable(m):
    out = {}
    todo = [m]
    seen = set()
    while todo:
        x = todo.pop()
        if id(x) in seen:
            continue
        seen.add(id(x))
        fn = getattr(x, '_tx_filename', None)
        out.setdefault(fn, []).append(x)
        rep = getattr(x, '_tx_model_repository', None)
        if rep is not None:
            todo.extend(rep.all_models)
            todo.extend(rep.local_models)
        for imp in getattr(x, 'imports', []):
            todo.extend(getattr(imp, '_tx_loaded_models', []))
    return out


def model_of(o):
    while hasattr(o, 'parent'):
        o = o.parent
    return o


def has_cycle(d):
    for f in d.order:
        for t in d.files[f]['imports']:
            if f in M.closure(d, t):
                return True
    return False


def search_path_shadow(ctx, i, rep):
    """ImportURI with search_path: a relative import is looked up next to the importing file first, then in the search
    path. One file name exists next to one importer AND in the search path; another importer has only the search-path copy."""
    from textx import metamodel_from_str, TextXError
    import textx.scoping.providers as sp
    r = ctx.rng('sp', i)
    M.SPY.install()
    tmp = tempfile.mkdtemp(prefix='tvc17s_')
    try:
        files = {
            'sp/common.m': 'def shared def only_sp\n',
            'other/a.m': 'import "common.m"\ndef a_def\nref ra -> shared\n',
            'pkg/common.m': 'def shared def only_pkg\n',
            'pkg/b.m': 'import "common.m"\ndef b_def\nref rb -> shared\n',
        }
        order = ['other/a.m', 'pkg/b.m']
        r.shuffle(order)
        files['main.m'] = ''.join('import "%s"\n' % f for f in order) + 'def main_def\n'
        for f, t in files.items():
            os.makedirs(os.path.dirname(os.path.join(tmp, f)), exist_ok=True)
            with open(os.path.join(tmp, f), 'w') as fh:
                fh.write(t)
        global_repo = r.random() < 0.5
        prov = r.choice(['plain', 'fqn'])
        mm = metamodel_from_str(M.GRAMMAR, global_repository=global_repo)
        cls = sp.PlainNameImportURI if prov == 'plain' else sp.FQNImportURI
        mm.register_scope_providers({'*.*': cls(search_path=[os.path.join(tmp, 'sp')])})
        ctx.count('search_path_shadow_cases')
        wit = {'files': files, 'import_order_in_main': order, 'global_repository': global_repo, 'provider': prov}
        ctx.case(('search-path-shadow', tuple(order), global_repo, prov), True, wit if ctx.evaluations < 3 else None)
        preload = global_repo and r.random() < 0.5
        if preload:
            # an earlier load caches the search-path copy
            mm.model_from_file(os.path.join(tmp, 'other', 'a.m'))
        M.SPY.reset(tmp)
        try:
            m = mm.model_from_file(os.path.join(tmp, 'main.m'))
        except TextXError as e:
            ctx.violation(None, 'search-path layout failed to load: %s' % str(e)[:140], wit, rep)
            return
        models = all_models_reachable(m)
        by_base = {}
        for fn, lst in models.items():
            if fn:
                by_base[os.path.relpath(fn, tmp)] = lst
        exp_loaded = set(files)
        if set(by_base) != exp_loaded:
            ctx.violation(None, 'search path + local copy: loaded files %r, the import closure (importing directory first, then the '
                          'search path) is %r' % (sorted(by_base), sorted(exp_loaded)), wit, rep)
            return
        for f in files:
            n = M.SPY.counts.get(os.path.join(tmp, f), 0)
            want = 0 if (preload and f in ('other/a.m', 'sp/common.m')) else 1
            if n != want:
                ctx.violation(None, 'search path + local copy: %s opened %d times, expected %d' % (f, n, want), wit, rep)
                return
        for f, refname, target_file in (('other/a.m', 'ra', 'sp/common.m'), ('pkg/b.m', 'rb', 'pkg/common.m')):
            mo = by_base[f][0]
            ref = [x for x in mo.refs if x.name == refname][0]
            got = model_of(ref.target)
            if got is not by_base[target_file][0]:
                ctx.violation(None, 'search path + local copy: %s of %s points into %s, the file found first for its import is %s' % (
                    refname, f, os.path.relpath(getattr(got, '_tx_filename', '?') or '?', tmp), target_file), wit, rep)
                return
    finally:
        shutil.rmtree(tmp, ignore_errors=True)



NAMED_GRAMMAR = '''
Model: imports*=Import (defs+=Def | refs+=Ref)*;
Import: 'import' importURI=STRING ('as' name=ID)?;
Def: 'def' name=ID;
Ref: 'ref' name=ID '->' target=[Def:FQN];
FQN: ID('.'ID)*;
'''


def named_imports(ctx, i, rep):
    """ImportURI(importAs=True): a file imported under a name is reachable through that name only; it does not take part
    in the plain lookup of the importer (its own definitions, then the files of its unnamed imports in import order) -
    wherever the file was loaded first (by another file of the same load, by an earlier load into a global repository)."""
    from textx import metamodel_from_str, TextXError, TextXSemanticError
    import textx.scoping.providers as sp
    r = ctx.rng('named', i)
    tmp = tempfile.mkdtemp(prefix='tvc17n_')
    try:
        nlib = r.randint(2, 4)
        libs = ['l%d.m' % k for k in range(nlib)]
        defs = {}
        for k, f in enumerate(libs):
            defs[f] = ['shared', 'only_%d' % k] + (['pair'] if r.random() < 0.5 else [])
        files = {f: ''.join('def %s\n' % n for n in defs[f]) for f in libs}
        # a file that imports some library files in the plain way (they are loaded before main reaches its own import)
        mid_imps = r.sample(libs, r.randint(1, nlib))
        files['mid.m'] = ''.join('import "%s"\n' % f for f in mid_imps) + 'def mid_def\n' + 'ref rm -> only_%s\n' % mid_imps[0][1:-2]
        defs['mid.m'] = ['mid_def']
        imports = []
        if r.random() < 0.6:
            imports.append(('mid.m', None))
        for f in r.sample(libs, r.randint(1, nlib)):
            imports.append((f, 'n%s' % f[1:-2] if r.random() < 0.55 else None))
        if r.random() < 0.3:
            # the same file a second time, the other way
            f, al = r.choice(imports)
            if f != 'mid.m':
                imports.append((f, None if al else 'again'))
        r.shuffle(imports)
        own = ['main_def'] + (['shared'] if r.random() < 0.2 else [])
        visible = []
        for f, al in imports:
            if al is None and f not in visible:
                visible.append(f)

        def expect_plain(name):
            if name in own:
                return 'main'
            for f in visible:
                if name in defs[f]:
                    return f
            return None
        names = sorted({n for f in libs for n in defs[f]} | {'mid_def', 'main_def'})
        good, bad = [], []
        for n in names:
            e = expect_plain(n)
            (good if e else bad).append((n, e))
        for f, al in imports:
            if al:
                for n in defs[f]:
                    good.append(('%s.%s' % (al, n), f))
        head = ''.join('import "%s"%s\n' % (f, ' as ' + al if al else '') for f, al in imports) + ''.join('def %s\n' % n for n in own)
        mode = r.choice(['plain', 'global', 'global_preload', 'global_preload'])
        mm = metamodel_from_str(NAMED_GRAMMAR, global_repository=mode != 'plain')
        mm.register_scope_providers({'*.*': sp.FQNImportURI(importAs=True)})
        for f, t in files.items():
            with open(os.path.join(tmp, f), 'w') as fh:
                fh.write(t)
        wit = {'files': files, 'imports_of_main': imports, 'mode': mode}
        pre = {}
        if mode == 'global_preload':
            for f in r.sample(libs + ['mid.m'], r.randint(1, nlib)):
                pre[f] = mm.model_from_file(os.path.join(tmp, f))
            wit['loaded_before'] = sorted(pre)
        ctx.count('named_import_cases')
        ctx.case(('named-imports', tuple((f, bool(a)) for f, a in imports), mode, tuple(sorted(pre))), True,
                 wit if ctx.evaluations < 3 else None)
        text = head + ''.join('ref r%d -> %s\n' % (k, n) for k, (n, _) in enumerate(good))
        wit['main'] = text
        path = os.path.join(tmp, 'main_ok.m')
        with open(path, 'w') as fh:
            fh.write(text)
        try:
            m = mm.model_from_file(path)
        except TextXError as e:
            ctx.violation(None, 'named imports: a model whose references are all in scope failed: %s' % str(e)[:160], wit, rep)
            return
        byfile = {}
        for fn, lst in all_models_reachable(m).items():
            if fn:
                byfile[os.path.basename(fn)] = lst
        for f, lst in byfile.items():
            if len(lst) != 1:
                ctx.violation(None, 'named imports: %d model objects for %s' % (len(lst), f), wit, rep)
                return
            if f in pre and lst[0] is not pre[f]:
                ctx.violation(None, 'named imports: %s was loaded before into the global repository, the load uses another object' % f, wit, rep)
                return
        for k, (n, e) in enumerate(good):
            ref = m.refs[k]
            got = model_of(ref.target)
            want = m if e == 'main' else byfile[e][0]
            ctx.count('named_import_references_checked')
            if '.' in n:
                ctx.count('references_through_import_name')
            if got is not want:
                ctx.violation(None, 'named imports: reference %r of main resolves into %s, expected %s (lookup: own definitions, then '
                              'the unnamed imports %r in order; named imports only through their name)' % (
                                  n, os.path.basename(getattr(got, '_tx_filename', None) or '?'), e, visible), wit, rep)
                return
        # names that are defined only in files imported under a name (or not imported by main at all): not in scope
        r.shuffle(bad)
        for k, (n, _) in enumerate(bad[:2]):
            path = os.path.join(tmp, 'main_bad%d.m' % k)
            with open(path, 'w') as fh:
                fh.write(head + 'ref rbad -> %s\n' % n)
            ctx.count('out_of_scope_names_checked')
            try:
                mb = mm.model_from_file(path)
            except TextXSemanticError:
                continue
            except TextXError as e:
                ctx.violation(None, 'named imports: unexpected error for the out-of-scope name %r: %s' % (n, str(e)[:120]), wit, rep)
                return
            tgt = model_of(mb.refs[0].target)
            ctx.violation(None, 'named imports: the name %r is not in scope of main (unnamed imports: %r) but resolves into %s' % (
                n, visible, os.path.basename(getattr(tgt, '_tx_filename', None) or '?')), dict(wit, main=head + 'ref rbad -> %s\n' % n), rep)
            return
    finally:
        shutil.rmtree(tmp, ignore_errors=True)


def shared_repository(ctx, i, rep):
    """Two metamodel objects (same grammar) use ONE GlobalModelRepository: a file reached through both is loaded once, both
    see the same model object and the same elements, and a repeated load through either returns the cached model."""
    from textx import metamodel_from_str, TextXError
    from textx.scoping import GlobalModelRepository
    import textx.scoping.providers as sp
    r = ctx.rng('shared', i)
    M.SPY.install()
    tmp = tempfile.mkdtemp(prefix='tvc17r_')
    try:
        d = M.gen_dir(r, tmp, collisions=False)
        M.add_refs(d, r)
        M.write_dir(d)
        repo = GlobalModelRepository()
        prov = r.choice(['plain', 'fqn'])
        mms = []
        for _ in range(2):
            mm = metamodel_from_str(M.GRAMMAR, global_repository=repo)
            mm.register_scope_providers({'*.*': sp.PlainNameImportURI() if prov == 'plain' else sp.FQNImportURI()})
            mms.append(mm)
        tops = [r.choice(d.order) for _ in range(r.randint(2, 4))]
        wit = {'files': {f: M.file_text(d, f) for f in d.order}, 'loads': tops, 'provider': prov}
        ctx.count('shared_repository_cases')
        ctx.case(('shared-repository', tuple(tuple(d.order.index(t) for t in d.files[f]['imports']) for f in d.order), prov,
                  tuple(d.order.index(t) for t in tops)), len(set(tops)) > 1, wit if ctx.evaluations < 3 else None)
        M.SPY.reset(tmp)
        seen = {}
        loaded = set()
        for k, top in enumerate(tops):
            mm = mms[k % 2]
            try:
                m = mm.model_from_file(d.files[top]['path'])
            except TextXError as e:
                ctx.violation(None, 'shared repository: load %d (%s) failed: %s' % (k, top, str(e)[:120]), wit, rep)
                return
            loaded |= set(M.closure(d, top))
            for f in sorted(loaded):
                n = M.SPY.counts.get(d.files[f]['path'], 0)
                if n != 1:
                    ctx.violation(None, 'shared repository: after load %d (%s, through metamodel %d) file %s was opened %d times in '
                                  'all (each file of the closures is read once)' % (k, top, k % 2, f, n), wit, rep)
                    return
            models = all_models_reachable(m)
            for fn, lst in models.items():
                if not fn:
                    continue
                b = os.path.relpath(fn, tmp)
                if len(lst) != 1:
                    ctx.violation(None, 'shared repository: %d model objects for %s' % (len(lst), b), wit, rep)
                    return
                if b in seen and seen[b] is not lst[0]:
                    ctx.violation(None, 'shared repository: load %d (%s) uses another model object for %s than an earlier load' % (k, top, b), wit, rep)
                    return
                seen[b] = lst[0]
            if seen.get(top) is not m:
                ctx.violation(None, 'shared repository: the model returned for %s is not the one stored for that file' % top, wit, rep)
                return
        # every reference of every model points into the one model object of the file that defines the name
        owner = {dn: f for f in d.order for dn, _ in d.files[f]['defs']}
        for b, mo in seen.items():
            for ref in getattr(mo, 'refs', []):
                for t in [ref.target] + list(ref.more):
                    ctx.count('shared_repository_references')
                    if model_of(t) is not seen.get(owner[t.name]):
                        ctx.violation(None, 'shared repository: reference %s of %s points to an element %s outside the model object '
                                      'of %s' % (ref.name, b, t.name, owner[t.name]), wit, rep)
                        return
    finally:
        shutil.rmtree(tmp, ignore_errors=True)


def one(ctx, i, rep=None):
    if i % 10 == 9:
        return shared_repository(ctx, i, rep or {'i': i})
    if i % 10 == 3:
        return named_imports(ctx, i, rep or {'i': i})
    if i % 10 == 7:
        return search_path_shadow(ctx, i, rep or {'i': i})
    from textx import metamodel_from_str, TextXError
    import textx.scoping.providers as sp
    from textx.scoping import ModelRepository
    M.SPY.install()
    rep = rep or {'i': i}
    r = ctx.rng('d', i)
    prov = PROVIDERS[i % len(PROVIDERS)]
    global_repo = r.random() < 0.4 or prov == 'globalrepo'
    use_builtin = r.random() < 0.3 and prov in ('plain', 'fqn', 'rrel')
    tmp = tempfile.mkdtemp(prefix='tvc17_')
    try:
        d = M.gen_dir(r, tmp, subdirs=(prov != 'search'), collisions=True)
        use_glob = prov == 'plain' and r.random() < 0.7
        if prov == 'globalrepo':
            for f in d.order:
                d.files[f]['imports'] = []
        M.add_refs(d, r)
        texts = {}
        if prov == 'globalrepo':
            # every file sees every file (pattern registered in the provider): refs may point anywhere, by unique names
            for f in d.order:
                pool = [dn for g in d.order for dn, _ in d.files[g]['defs'] if dn not in ('shared', 'common')]
                d.files[f]['refs'] = [('r%d' % k, r.choice(pool), []) for k in range(r.randint(0, 3))]
        if use_builtin:
            # names only the builtin model provides
            for f in d.order:
                if r.random() < 0.5:
                    d.files[f]['refs'].append(('rb_%s' % f.replace('/', '_').replace('.', '_'), 'builtin_only', []))
        for f in d.order:
            texts[f] = M.file_text(d, f)
        if use_glob:
            # replace the imports of one file by a glob over its directory (same closure: import everything in that dir)
            g = r.choice(d.order)
            dirn = os.path.dirname(g)
            same = sorted(x for x in d.order if os.path.dirname(x) == dirn and x != g)
            if same:
                d.files[g]['imports'] = [x for x in d.files[g]['imports'] if os.path.dirname(x) != dirn] + same
                body = texts[g].split('\n')
                body = [l for l in body if not l.startswith('import ')]
                imps = ['import "%s"' % M.rel_import(g, x) for x in d.files[g]['imports'] if os.path.dirname(x) != dirn]
                # keep import order: non-globbed first, then glob (sorted by glob = lexicographic = our order)
                texts[g] = '\n'.join(imps + ['import "*.m"'] + body)
                d.files[g]['imports'] = [x for x in d.files[g]['imports'] if os.path.dirname(x) != dirn] + sorted(
                    [x for x in d.order if os.path.dirname(x) == dirn])
                # references of g were generated before: keep only those still resolvable by the new order
                ctx.count('glob_imports')
                d.files[g]['refs'] = []
                texts[g] = '\n'.join(l for l in texts[g].split('\n') if not l.startswith('ref '))
        M.write_dir(d, texts)
        grammar = M.GRAMMAR_RREL.replace('defs.defs*', 'defs') if prov == 'rrel' else M.GRAMMAR
        kw = {}
        if global_repo:
            kw['global_repository'] = True
        builtin_model = None
        if use_builtin:
            bmm = metamodel_from_str(M.GRAMMAR)
            builtin_model = bmm.model_from_str('def builtin_only def shared def common')
            repo = ModelRepository()
            repo.add_model(builtin_model)
            kw['builtin_models'] = repo
        mm = metamodel_from_str(grammar, **kw)
        if prov == 'plain':
            mm.register_scope_providers({'*.*': sp.PlainNameImportURI()})
        elif prov == 'fqn':
            mm.register_scope_providers({'*.*': sp.FQNImportURI()})
        elif prov == 'search':
            mm.register_scope_providers({'*.*': sp.PlainNameImportURI(search_path=[tmp])})
            ctx.count('search_path_loads')
        elif prov == 'globalrepo':
            mm.register_scope_providers({'*.*': sp.PlainNameGlobalRepo(os.path.join(tmp, '**', '*.m'), glob_args={'recursive': True})})
        else:
            ctx.count('rrel_m_loads')
        cyc = has_cycle(d)
        if cyc:
            ctx.count('cyclic_graphs')
        collide = any(dn in ('shared', 'common') for f in d.order for dn, _ in d.files[f]['defs'])
        ctx.case((tuple(tuple(d.order.index(t) for t in d.files[f]['imports']) for f in d.order), prov, global_repo, use_builtin),
                 cyc or collide, {'files': {f: texts[f] for f in d.order}, 'provider': prov, 'global_repository': global_repo}
                 if ctx.evaluations < 2 else None)
        wit = {'files': {f: texts[f] for f in d.order}, 'provider': prov, 'global_repository': global_repo, 'builtin_models': use_builtin}
        cached = {}            # file -> model object (global repository)
        loads = r.sample(d.order, min(len(d.order), 3))
        if global_repo and loads:
            loads.append(loads[0])         # repeated load
        for li, top in enumerate(loads):
            M.SPY.reset(tmp)
            try:
                m = mm.model_from_file(d.files[top]['path'])
            except TextXError as e:
                ctx.violation(None, 'every reference is resolvable by the documented lookup order, yet loading %s failed: %s' % (
                    top, str(e)[:140]), wit, rep)
                return
            ctx.count('top_level_loads')
            clo = M.closure(d, top) if prov != 'globalrepo' else list(d.order)
            if prov == 'rrel':
                # '+m:' loads the imports of a file when it resolves that file's references: a file without
                # references does not pull in its imports
                clo, todo = [], [top]
                while todo:
                    x = todo.pop(0)
                    if x in clo:
                        continue
                    clo.append(x)
                    if d.files[x]['refs']:
                        todo.extend(d.files[x]['imports'])
            # ---- (a) opens ----
            for f in d.order:
                p = os.path.abspath(d.files[f]['path'])
                n = M.SPY.counts.get(p, 0)
                ctx.count('files_open_checked')
                exp = 1 if f in clo else 0
                if global_repo and f in cached:
                    exp = 0
                if n != exp:
                    ctx.violation(None, 'loading %s (%s): file %s was opened %d time(s), expected %d (import closure %s%s)' % (
                        top, 'load #%d' % li, f, n, exp, clo, ', cached by an earlier load' if (global_repo and f in cached) else ''), wit, rep)
                    return
            # ---- (b) identity ----
            reach = all_models_reachable(m)
            for fn, lst in reach.items():
                if fn is None:
                    continue
                if len({id(x) for x in lst}) != 1:
                    ctx.violation(None, 'loading %s: %d different model objects exist for file %s' % (top, len({id(x) for x in lst}), os.path.basename(fn)), wit, rep)
                    return
            by_file = {os.path.abspath(fn): lst[0] for fn, lst in reach.items() if fn}
            if global_repo:
                for f in clo:
                    p = os.path.abspath(d.files[f]['path'])
                    if f in cached and by_file.get(p) is not cached[f]:
                        ctx.violation(None, 'load #%d of %s: file %s is represented by a new model object although it was cached' % (li, top, f), wit, rep)
                        return
                    if p in by_file:
                        cached[f] = by_file[p]
                if li == len(loads) - 1 and loads.count(top) > 1:
                    ctx.count('cached_reloads')
            # ---- (c) references ----
            for f in clo:
                p = os.path.abspath(d.files[f]['path'])
                mo = by_file.get(p)
                if mo is None:
                    ctx.violation(None, 'loading %s: no model for closure file %s is reachable' % (top, f), wit, rep)
                    return
                for (rn, tgt, more), robj in zip(d.files[f]['refs'], mo.refs):
                    for name, got in [(tgt, robj.target)] + list(zip(more, robj.more)):
                        ctx.count('references_checked')
                        if prov == 'globalrepo':
                            exp_file = next(g for g in d.order if any(dn == name for dn, _ in d.files[g]['defs']))
                        else:
                            exp_file = M.visible_plain(d, f, name)
                        gm = model_of(got)
                        if exp_file is None:
                            # only the builtin model provides it
                            ctx.count('builtin_model_resolutions')
                            if gm is not builtin_model:
                                ctx.violation(None, '%s: reference %r should resolve into the builtin model' % (f, name), wit, rep)
                                return
                            continue
                        if name in ('shared', 'common'):
                            ctx.count('colliding_names_resolved')
                        if gm is not by_file[os.path.abspath(d.files[exp_file]['path'])]:
                            ctx.violation(None, '%s: reference %r points into %s, the lookup order (model, imports in order, builtin models) gives %s' % (
                                f, name, os.path.basename(getattr(gm, '_tx_filename', None) or 'builtin'), exp_file), wit, rep)
                            return
    finally:
        shutil.rmtree(tmp, ignore_errors=True)


def run(ctx):
    for i in ctx.indices(2400 if ctx.tier == "quick" else 10 ** 7, "random"):
        one(ctx, i)


def replay(ctx, rep):
    one(ctx, rep['i'], rep)

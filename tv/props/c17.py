"""C17 - multi-file models load each file once and share element identity."""
import os
import shutil
import tempfile

from tv import mfiles as M

ID = 'C17'
LEVEL = 'exploration'
QUICK_S = 60
THOROUGH_S = 300
TECHNIQUE = ('runtime monitoring: builtins.open spy (opens per file per top-level load), identity census over every reachable '
             'model repository, reference lookup-order oracle with deliberately colliding names')
RULE = ('random directories of 2-7 model files in up to 3 sub-directories with random import graphs (cycles, diamonds, '
        'self-imports, relative paths, glob imports), unique and colliding definition names; providers: PlainNameImportURI, '
        'FQNImportURI, ImportURI with search_path, grammar RREL +m:, PlainNameGlobalRepo; with/without metamodel global '
        'repository and builtin models. Per top-level load: every file of the import closure opened exactly once and no '
        'other; one model object per file across all repositories; every reference points into the model object of the '
        'file chosen by the documented order (model, its imports in order, builtin models); with a global repository a '
        'repeated load returns the cached object without opening files and later loads share the cached files. distinct = '
        '(import graph shape, provider, repository mode); non-trivial = graph has a cycle, a diamond or a colliding name')
REQUIRED = {'top_level_loads': 300, 'files_open_checked': 800, 'references_checked': 500, 'cyclic_graphs': 30,
            'colliding_names_resolved': 50, 'cached_reloads': 30, 'builtin_model_resolutions': 10, 'glob_imports': 10,
            'search_path_loads': 10, 'rrel_m_loads': 10, 'search_path_shadow_cases': 50}

PROVIDERS = ['plain', 'fqn', 'search', 'rrel', 'globalrepo']


def all_models_reachable(m):
    out = {}
    todo = [m]
    seen = set()
    while todo:
        x = todo.pop()
        if id(x) in seen:
            continue
        seen.add(id(x))
        fn = getattr(x, '_tx_filename', None)
        out.setdefault(fn, []).append(x)
        rep = getattr(x, '_tx_model_repository', None)
        if rep is not None:
            todo.extend(rep.all_models)
            todo.extend(rep.local_models)
        for imp in getattr(x, 'imports', []):
            todo.extend(getattr(imp, '_tx_loaded_models', []))
    return out


def model_of(o):
    while hasattr(o, 'parent'):
        o = o.parent
    return o


def has_cycle(d):
    for f in d.order:
        for t in d.files[f]['imports']:
            if f in M.closure(d, t):
                return True
    return False


def search_path_shadow(ctx, i, rep):
    """ImportURI with search_path: a relative import is looked up next to the importing file first, then in the search
    path. One file name exists next to one importer AND in the search path; another importer has only the search-path copy."""
    from textx import metamodel_from_str, TextXError
    import textx.scoping.providers as sp
    r = ctx.rng('sp', i)
    M.SPY.install()
    tmp = tempfile.mkdtemp(prefix='tvc17s_')
    try:
        files = {
            'sp/common.m': 'def shared def only_sp\n',
            'other/a.m': 'import "common.m"\ndef a_def\nref ra -> shared\n',
            'pkg/common.m': 'def shared def only_pkg\n',
            'pkg/b.m': 'import "common.m"\ndef b_def\nref rb -> shared\n',
        }
        order = ['other/a.m', 'pkg/b.m']
        r.shuffle(order)
        files['main.m'] = ''.join('import "%s"\n' % f for f in order) + 'def main_def\n'
        for f, t in files.items():
            os.makedirs(os.path.dirname(os.path.join(tmp, f)), exist_ok=True)
            with open(os.path.join(tmp, f), 'w') as fh:
                fh.write(t)
        global_repo = r.random() < 0.5
        prov = r.choice(['plain', 'fqn'])
        mm = metamodel_from_str(M.GRAMMAR, global_repository=global_repo)
        cls = sp.PlainNameImportURI if prov == 'plain' else sp.FQNImportURI
        mm.register_scope_providers({'*.*': cls(search_path=[os.path.join(tmp, 'sp')])})
        ctx.count('search_path_shadow_cases')
        wit = {'files': files, 'import_order_in_main': order, 'global_repository': global_repo, 'provider': prov}
        ctx.case(('search-path-shadow', tuple(order), global_repo, prov), True, wit if ctx.evaluations < 3 else None)
        preload = global_repo and r.random() < 0.5
        if preload:
            # an earlier load caches the search-path copy
            mm.model_from_file(os.path.join(tmp, 'other', 'a.m'))
        M.SPY.reset(tmp)
        try:
            m = mm.model_from_file(os.path.join(tmp, 'main.m'))
        except TextXError as e:
            ctx.violation(None, 'search-path layout failed to load: %s' % str(e)[:140], wit, rep)
            return
        models = all_models_reachable(m)
        by_base = {}
        for fn, lst in models.items():
            if fn:
                by_base[os.path.relpath(fn, tmp)] = lst
        exp_loaded = set(files)
        if set(by_base) != exp_loaded:
            ctx.violation(None, 'search path + local copy: loaded files %r, the import closure (importing directory first, then the '
                          'search path) is %r' % (sorted(by_base), sorted(exp_loaded)), wit, rep)
            return
        for f in files:
            n = M.SPY.counts.get(os.path.join(tmp, f), 0)
            want = 0 if (preload and f in ('other/a.m', 'sp/common.m')) else 1
            if n != want:
                ctx.violation(None, 'search path + local copy: %s opened %d times, expected %d' % (f, n, want), wit, rep)
                return
        for f, refname, target_file in (('other/a.m', 'ra', 'sp/common.m'), ('pkg/b.m', 'rb', 'pkg/common.m')):
            mo = by_base[f][0]
            ref = [x for x in mo.refs if x.name == refname][0]
            got = model_of(ref.target)
            if got is not by_base[target_file][0]:
                ctx.violation(None, 'search path + local copy: %s of %s points into %s, the file found first for its import is %s' % (
                    refname, f, os.path.relpath(getattr(got, '_tx_filename', '?') or '?', tmp), target_file), wit, rep)
                return
    finally:
        shutil.rmtree(tmp, ignore_errors=True)


def one(ctx, i, rep=None):
    if i % 10 == 7:
        return search_path_shadow(ctx, i, rep or {'i': i})
    from textx import metamodel_from_str, TextXError
    import textx.scoping.providers as sp
    from textx.scoping import ModelRepository
    M.SPY.install()
    rep = rep or {'i': i}
    r = ctx.rng('d', i)
    prov = PROVIDERS[i % len(PROVIDERS)]
    global_repo = r.random() < 0.4 or prov == 'globalrepo'
    use_builtin = r.random() < 0.3 and prov in ('plain', 'fqn', 'rrel')
    tmp = tempfile.mkdtemp(prefix='tvc17_')
    try:
        d = M.gen_dir(r, tmp, subdirs=(prov != 'search'), collisions=True)
        use_glob = prov == 'plain' and r.random() < 0.7
        if prov == 'globalrepo':
            for f in d.order:
                d.files[f]['imports'] = []
        M.add_refs(d, r)
        texts = {}
        if prov == 'globalrepo':
            # every file sees every file (pattern registered in the provider): refs may point anywhere, by unique names
            for f in d.order:
                pool = [dn for g in d.order for dn, _ in d.files[g]['defs'] if dn not in ('shared', 'common')]
                d.files[f]['refs'] = [('r%d' % k, r.choice(pool), []) for k in range(r.randint(0, 3))]
        if use_builtin:
            # names only the builtin model provides
            for f in d.order:
                if r.random() < 0.5:
                    d.files[f]['refs'].append(('rb_%s' % f.replace('/', '_').replace('.', '_'), 'builtin_only', []))
        for f in d.order:
            texts[f] = M.file_text(d, f)
        if use_glob:
            # replace the imports of one file by a glob over its directory (same closure: import everything in that dir)
            g = r.choice(d.order)
            dirn = os.path.dirname(g)
            same = sorted(x for x in d.order if os.path.dirname(x) == dirn and x != g)
            if same:
                d.files[g]['imports'] = [x for x in d.files[g]['imports'] if os.path.dirname(x) != dirn] + same
                body = texts[g].split('\n')
                body = [l for l in body if not l.startswith('import ')]
                imps = ['import "%s"' % M.rel_import(g, x) for x in d.files[g]['imports'] if os.path.dirname(x) != dirn]
                # keep import order: non-globbed first, then glob (sorted by glob = lexicographic = our order)
                texts[g] = '\n'.join(imps + ['import "*.m"'] + body)
                d.files[g]['imports'] = [x for x in d.files[g]['imports'] if os.path.dirname(x) != dirn] + sorted(
                    [x for x in d.order if os.path.dirname(x) == dirn])
                # references of g were generated before: keep only those still resolvable by the new order
                ctx.count('glob_imports')
                d.files[g]['refs'] = []
                texts[g] = '\n'.join(l for l in texts[g].split('\n') if not l.startswith('ref '))
        M.write_dir(d, texts)
        grammar = M.GRAMMAR_RREL.replace('defs.defs*', 'defs') if prov == 'rrel' else M.GRAMMAR
        kw = {}
        if global_repo:
            kw['global_repository'] = True
        builtin_model = None
        if use_builtin:
            bmm = metamodel_from_str(M.GRAMMAR)
            builtin_model = bmm.model_from_str('def builtin_only def shared def common')
            repo = ModelRepository()
            repo.add_model(builtin_model)
            kw['builtin_models'] = repo
        mm = metamodel_from_str(grammar, **kw)
        if prov == 'plain':
            mm.register_scope_providers({'*.*': sp.PlainNameImportURI()})
        elif prov == 'fqn':
            mm.register_scope_providers({'*.*': sp.FQNImportURI()})
        elif prov == 'search':
            mm.register_scope_providers({'*.*': sp.PlainNameImportURI(search_path=[tmp])})
            ctx.count('search_path_loads')
        elif prov == 'globalrepo':
            mm.register_scope_providers({'*.*': sp.PlainNameGlobalRepo(os.path.join(tmp, '**', '*.m'), glob_args={'recursive': True})})
        else:
            ctx.count('rrel_m_loads')
        cyc = has_cycle(d)
        if cyc:
            ctx.count('cyclic_graphs')
        collide = any(dn in ('shared', 'common') for f in d.order for dn, _ in d.files[f]['defs'])
        ctx.case((tuple(tuple(d.order.index(t) for t in d.files[f]['imports']) for f in d.order), prov, global_repo, use_builtin),
                 cyc or collide, {'files': {f: texts[f] for f in d.order}, 'provider': prov, 'global_repository': global_repo}
                 if ctx.evaluations < 2 else None)
        wit = {'files': {f: texts[f] for f in d.order}, 'provider': prov, 'global_repository': global_repo, 'builtin_models': use_builtin}
        cached = {}            # file -> model object (global repository)
        loads = r.sample(d.order, min(len(d.order), 3))
        if global_repo and loads:
            loads.append(loads[0])         # repeated load
        for li, top in enumerate(loads):
            M.SPY.reset(tmp)
            try:
                m = mm.model_from_file(d.files[top]['path'])
            except TextXError as e:
                ctx.violation(None, 'every reference is resolvable by the documented lookup order, yet loading %s failed: %s' % (
                    top, str(e)[:140]), wit, rep)
                return
            ctx.count('top_level_loads')
            clo = M.closure(d, top) if prov != 'globalrepo' else list(d.order)
            if prov == 'rrel':
                # '+m:' loads the imports of a file when it resolves that file's references: a file without
                # references does not pull in its imports
                clo, todo = [], [top]
                while todo:
                    x = todo.pop(0)
                    if x in clo:
                        continue
                    clo.append(x)
                    if d.files[x]['refs']:
                        todo.extend(d.files[x]['imports'])
            # ---- (a) opens ----
            for f in d.order:
                p = os.path.abspath(d.files[f]['path'])
                n = M.SPY.counts.get(p, 0)
                ctx.count('files_open_checked')
                exp = 1 if f in clo else 0
                if global_repo and f in cached:
                    exp = 0
                if n != exp:
                    ctx.violation(None, 'loading %s (%s): file %s was opened %d time(s), expected %d (import closure %s%s)' % (
                        top, 'load #%d' % li, f, n, exp, clo, ', cached by an earlier load' if (global_repo and f in cached) else ''), wit, rep)
                    return
            # ---- (b) identity ----
            reach = all_models_reachable(m)
            for fn, lst in reach.items():
                if fn is None:
                    continue
                if len({id(x) for x in lst}) != 1:
                    ctx.violation(None, 'loading %s: %d different model objects exist for file %s' % (top, len({id(x) for x in lst}), os.path.basename(fn)), wit, rep)
                    return
            by_file = {os.path.abspath(fn): lst[0] for fn, lst in reach.items() if fn}
            if global_repo:
                for f in clo:
                    p = os.path.abspath(d.files[f]['path'])
                    if f in cached and by_file.get(p) is not cached[f]:
                        ctx.violation(None, 'load #%d of %s: file %s is represented by a new model object although it was cached' % (li, top, f), wit, rep)
                        return
                    if p in by_file:
                        cached[f] = by_file[p]
                if li == len(loads) - 1 and loads.count(top) > 1:
                    ctx.count('cached_reloads')
            # ---- (c) references ----
            for f in clo:
                p = os.path.abspath(d.files[f]['path'])
                mo = by_file.get(p)
                if mo is None:
                    ctx.violation(None, 'loading %s: no model for closure file %s is reachable' % (top, f), wit, rep)
                    return
                for (rn, tgt, more), robj in zip(d.files[f]['refs'], mo.refs):
                    for name, got in [(tgt, robj.target)] + list(zip(more, robj.more)):
                        ctx.count('references_checked')
                        if prov == 'globalrepo':
                            exp_file = next(g for g in d.order if any(dn == name for dn, _ in d.files[g]['defs']))
                        else:
                            exp_file = M.visible_plain(d, f, name)
                        gm = model_of(got)
                        if exp_file is None:
                            # only the builtin model provides it
                            ctx.count('builtin_model_resolutions')
                            if gm is not builtin_model:
                                ctx.violation(None, '%s: reference %r should resolve into the builtin model' % (f, name), wit, rep)
                                return
                            continue
                        if name in ('shared', 'common'):
                            ctx.count('colliding_names_resolved')
                        if gm is not by_file[os.path.abspath(d.files[exp_file]['path'])]:
                            ctx.violation(None, '%s: reference %r points into %s, the lookup order (model, imports in order, builtin models) gives %s' % (
                                f, name, os.path.basename(getattr(gm, '_tx_filename', None) or 'builtin'), exp_file), wit, rep)
                            return
    finally:
        shutil.rmtree(tmp, ignore_errors=True)


def run(ctx):
    for i in ctx.indices(2400 if ctx.tier == "quick" else 10 ** 7, "random"):
        one(ctx, i)


def replay(ctx, rep):
    one(ctx, rep['i'], rep)

"""C13 - object processors run once each, bottom-up, on a fully linked model."""
import os
import shutil
import tempfile

ID = 'C13'
LEVEL = 'exploration'
QUICK_S = 45
THOROUGH_S = 300
TECHNIQUE = ('runtime monitoring: recording processors on every rule produce an event log with a logical clock and a '
             '"model fully linked and initialised?" probe; an offline checker verifies exactly-once, ordering and replacement')
RULE = ('models generated as trees by the harness (recursive blocks; single and list containment slots typed by an abstract '
        'rule and by a common rule; match-rule attributes; references across the tree and across two files) with recording '
        'processors on all common, abstract and match rules; processors return replacement values for some objects (by a '
        'hash of the name): objects, strings, and falsy values 0 / "" / False; user classes in a third of the cases. Checked '
        'offline over the log: one call per object for its own rule, one call of the abstract rule per abstract-typed slot '
        'after the own-rule call, children before containers, no common/abstract call before every reference of every '
        'loaded model is resolved and every user object initialised, replacement values in place afterwards (own-rule value '
        'wins), match-rule processors not re-run. distinct = (tree shape, variant); non-trivial = depth >= 3, an abstract '
        'slot and a replacement present')
REQUIRED = {'grammars_with_abstract_first_rule': 50, 'models': 200, 'processor_calls_checked': 5000, 'abstract_slot_calls': 500, 'replacements_checked': 200,
            'falsy_replacements': 30, 'two_file_loads': 40, 'user_class_loads': 40, 'depth3_models': 50,
            'two_language_loads': 30, 'one_callable_for_all_rules_loads': 50}

GRAMMAR = '''
Model: imports*=Import 'model' name=ID items*=Item;
Import: 'import' importURI=STRING;
Item: Block | Leaf | Ref;
Block: 'block' name=ID '{' ('first' first=Item)? items*=Item ('else' alt=Block)? ('tag' tag=Tag)? '}';
Leaf: 'leaf' name=ID (':' val=Val)?;
Ref: 'ref' name=ID '->' target=[Item];
Val: INT | STRING;
Tag: /#\\w+/;
'''
# C13 only: an attribute assigned with several types beside attributes typed by the abstract rule
GRAMMAR13 = GRAMMAR.replace("('tag' tag=Tag)? '}';", "('tag' tag=Tag)?\n  ('anchor' (anchor=Item | 'leaf' anchor=Leaf | 'val' anchor=Val))? '}';")
assert GRAMMAR13 != GRAMMAR



def gen_tree(r, depth, names, maxdepth, prefix):
    k = r.random()
    name = '%s%d' % (prefix, len(names))
    names.append(name)
    if depth < maxdepth and k < 0.45:
        n = {'kind': 'Block', 'name': name, 'first': None, 'items': [], 'alt': None, 'tag': None}
        if r.random() < 0.5:
            n['first'] = gen_tree(r, depth + 1, names, maxdepth, prefix)
        for _ in range(r.choice([0, 1, 1, 2, 3])):
            n['items'].append(gen_tree(r, depth + 1, names, maxdepth, prefix))
        if r.random() < 0.3:
            nm = '%s%d' % (prefix, len(names))
            names.append(nm)
            n['alt'] = {'kind': 'Block', 'name': nm, 'first': None, 'items': [gen_tree(r, depth + 2, names, maxdepth, prefix)]
                        if r.random() < 0.5 else [], 'alt': None, 'tag': None}
        if r.random() < 0.3:
            n['tag'] = '#t%d' % len(names)
        return n
    if k < 0.8:
        return {'kind': 'Leaf', 'name': name, 'val': r.choice([None, 0, 7, '"s"', '""'])}
    return {'kind': 'Ref', 'name': name, 'target': None}


def children_of(n):
    """(child, slot, slot type) in the attribute order of the grammar"""
    if n['kind'] == 'Model':
        return [(c, 'items', 'Item') for c in n['items']]
    if n['kind'] == 'Block':
        out = []
        if n['first'] is not None:
            out.append((n['first'], 'first', 'Item'))
        out.extend((c, 'items', 'Item') for c in n['items'])
        if n['alt'] is not None:
            out.append((n['alt'], 'alt', 'Block'))
        return out
    return []


def all_nodes(n):
    out = [n]
    for c, _, _ in children_of(n):
        out.extend(all_nodes(c))
    return out


def pr(n, ind=0):
    sp = ' ' * ind
    if n['kind'] == 'Model':
        return ''.join('import "%s"\n' % i for i in n.get('imports', [])) + 'model %s\n' % n['name'] + ''.join(pr(c, 1) for c in n['items'])
    if n['kind'] == 'Leaf':
        return sp + 'leaf %s%s\n' % (n['name'], '' if n['val'] is None else ' : %s' % n['val'])
    if n['kind'] == 'Ref':
        return sp + 'ref %s -> %s\n' % (n['name'], n['target'])
    s = sp + 'block %s {\n' % n['name']
    if n['first'] is not None:
        s += sp + ' first\n' + pr(n['first'], ind + 1)
    for c in n['items']:
        s += pr(c, ind + 1)
    if n['alt'] is not None:
        s += sp + ' else\n' + pr(n['alt'], ind + 1)
    if n['tag']:
        s += sp + ' tag %s\n' % n['tag']
    return s + sp + '}\n'


def h(name, salt):
    return (sum(ord(c) * (k + 3) for k, c in enumerate(name)) + salt) % 1000


def own_replacement(kind, name, salt):
    """what the processor of the object's own rule returns (None = keep)"""
    if kind not in ('Leaf', 'Block', 'Ref'):
        return None
    x = h(name, salt)
    if x % 9 == 0:
        return 'own:' + name
    if x % 23 == 1:
        return [0, '', False][x % 3]
    return None


def abs_replacement(name, salt):
    x = h(name, salt + 17)
    if x % 8 == 0:
        return 'abs:' + name
    if x % 29 == 2:
        return [0, '', False][x % 3]
    return None


def one(ctx, i, rep=None):
    from textx import metamodel_from_str, TextXError
    import textx.scoping.providers as sp
    rep = rep or {'i': i}
    r = ctx.rng('m', i)
    salt = r.randint(0, 999)
    two_files = (i % 4 == 1)
    use_classes = (i % 3 == 2)
    # two languages: the imported file belongs to another registered language (own metamodel, with the recording
    # processors); the main language has no object processors at all
    multi_lang = (i % 8 == 5)
    if multi_lang:
        use_classes = False
    roots = []
    for fi in range(2 if two_files else 1):
        names = []
        root = {'kind': 'Model', 'name': 'root%d' % fi, 'items': [], 'imports': []}
        md = r.choice([2, 3, 4, 5])
        for _ in range(r.randint(1, 4)):
            root['items'].append(gen_tree(r, 1, names, md, 'm%dn' % fi))
        roots.append(root)
    if two_files:
        roots[0]['imports'] = ['other.m2' if multi_lang else 'other.m']
    nodes_all = [n for rt in roots for n in all_nodes(rt)]
    named = [n for n in nodes_all if n['kind'] != 'Model']
    if multi_lang:
        named = [n for n in all_nodes(roots[0]) if n['kind'] != 'Model']
    for n in nodes_all:
        if n['kind'] == 'Ref':
            n['target'] = r.choice(named)['name']
    texts = [pr(rt) for rt in roots]
    # refs in the imported file may only point into that file
    if two_files:
        own = [n for n in all_nodes(roots[1]) if n['kind'] != 'Model']
        for n in all_nodes(roots[1]):
            if n['kind'] == 'Ref':
                n['target'] = r.choice(own)['name']
        texts = [pr(rt) for rt in roots]
    # ---- instrumentation ---------------------------------------------------------------
    log = []
    clock = [0]
    loaded = []          # all model roots of this load, filled lazily by the probe
    inited = set()

    classes = []
    if use_classes:
        class Leaf:
            def __init__(self, parent=None, name=None, val=None):
                self.parent, self.name, self.val = parent, name, val
                inited.add(id(self))

        class Block:
            def __init__(self, parent=None, name=None, first=None, items=None, alt=None, tag=None, anchor=None):
                self.parent, self.name, self.first, self.items, self.alt, self.tag, self.anchor = parent, name, first, items, alt, tag, anchor
                inited.add(id(self))
        classes = [Leaf, Block]

    def model_of(o):
        while hasattr(o, 'parent'):
            o = o.parent
        return o

    def linked_probe(o):
        """is every reference of every model of this load resolved, and every user object initialised?"""
        from textx.model import ObjCrossRef
        m = model_of(o)
        models = [m]
        repo = getattr(m, '_tx_model_repository', None)
        if repo is not None:
            models += [x for x in repo.all_models if x is not m]
        todo = list(models)
        seen = set()
        while todo:
            x = todo.pop()
            if id(x) in seen or not hasattr(type(x), '_tx_attrs'):
                continue
            seen.add(id(x))
            if use_classes and type(x).__name__ in ('Leaf', 'Block') and id(x) not in inited:
                return 'user object %s not initialised' % getattr(x, 'name', '?')
            if type(x).__name__ == 'Ref':
                t = x.__dict__.get('target', None) if hasattr(x, '__dict__') else getattr(x, 'target', None)
                if t is None or isinstance(t, ObjCrossRef):
                    return 'reference of %s not resolved' % x.name
            for a in ('items', 'first', 'alt'):
                v = getattr(x, a, None)
                if isinstance(v, list):
                    todo.extend(v)
                elif v is not None:
                    todo.append(v)
        return None

    def mk(rule, is_match=False):
        def proc(x):
            clock[0] += 1
            if is_match:
                log.append((rule, ('value', x), clock[0], None))
                return None
            problem = linked_probe(x)
            log.append((rule, ('obj', id(x), type(x).__name__, getattr(x, 'name', None)), clock[0], problem))
            if rule == 'Item':
                return abs_replacement(x.name, salt)
            if rule == 'Model':
                return None
            return own_replacement(rule, x.name, salt)
        return proc

    # the first rule of the grammar is an abstract rule (i % 5 == 2): the model object sits in no attribute, so the processor
    # of that abstract rule has no business with it
    abstract_first = (i % 5 == 2) and not multi_lang
    unit_calls = []
    gtext = GRAMMAR13
    if abstract_first:
        gtext = "Unit: Model | Lib;\nLib: 'lib' name=ID;\n" + GRAMMAR13
        ctx.count('grammars_with_abstract_first_rule')
    mm = metamodel_from_str(gtext, classes=classes)
    mm.register_scope_providers({'*.*': sp.PlainNameImportURI()})
    procs = {'Model': mk('Model'), 'Block': mk('Block'), 'Leaf': mk('Leaf'), 'Ref': mk('Ref'),
             'Item': mk('Item'), 'Val': mk('Val', True), 'Tag': mk('Tag', True)}
    if abstract_first:
        def unit_proc(x):
            unit_calls.append((type(x).__name__, getattr(x, 'name', None)))
        procs['Unit'] = unit_proc
    shared_callable = (i % 7 == 3) and not multi_lang
    if shared_callable:
        # ONE callable registered for every common rule and for the abstract rule (a generic tracer): an object stored in
        # an Item-typed attribute must still see it twice (own rule, then abstract rule)
        def tracer(x):
            clock[0] += 1
            log.append(('*', ('obj', id(x), type(x).__name__, getattr(x, 'name', None)), clock[0], linked_probe(x)))
        for k in ('Model', 'Block', 'Leaf', 'Ref', 'Item'):
            procs[k] = tracer
        ctx.count('one_callable_for_all_rules_loads')
    if multi_lang:
        from textx import register_language, clear_language_registrations, LanguageDesc
        mm2 = metamodel_from_str(GRAMMAR13)
        mm2.register_scope_providers({'*.*': sp.PlainNameImportURI()})
        mm2.register_obj_processors(procs)
        clear_language_registrations()
        register_language(LanguageDesc('tvc13main', pattern='*.m', description='main', metamodel=mm))
        register_language(LanguageDesc('tvc13other', pattern='*.m2', description='other', metamodel=mm2))
        ctx.count('two_language_loads')
    else:
        mm.register_obj_processors(procs)
    tmp = None
    try:
        if two_files:
            tmp = tempfile.mkdtemp(prefix='tvc13_')
            for nm, t in zip(['main.m', 'other.m2' if multi_lang else 'other.m'], texts):
                with open(os.path.join(tmp, nm), 'w') as f:
                    f.write(t)
            ctx.count('two_file_loads')
            m = mm.model_from_file(os.path.join(tmp, 'main.m'))
        else:
            m = mm.model_from_str(texts[0])
    except TextXError as e:
        ctx.violation(None, 'harness model rejected: %s' % str(e)[:140], {'files': texts}, rep)
        return
    finally:
        if tmp:
            shutil.rmtree(tmp, ignore_errors=True)
        if multi_lang:
            clear_language_registrations()
    ctx.count('models')
    checked_roots = roots[1:] if multi_lang else roots
    if multi_lang:
        mine = {n['name'] for n in all_nodes(roots[0])}
        stray = [e for e in log if e[1][0] == 'obj' and e[1][3] in mine]
        if stray:
            ctx.violation(None, 'a processor of the other language ran for %s of the main model' % stray[0][1][3], {'files': texts}, rep)
            return
        nodes_all = [n for n in all_nodes(roots[1])]
    if use_classes:
        ctx.count('user_class_loads')
    wit = {'files': texts, 'user_classes': use_classes, 'salt': salt, 'log_excerpt': [repr(e)[:120] for e in log[:40]]}
    depth_ok = max(len(n['name']) for n in nodes_all) and any(True for n in nodes_all)
    # ---- offline checker ---------------------------------------------------------------
    calls = {}
    if shared_callable:
        # the tracer cannot know for which rule it was called: the first call for an object counts as the call for its
        # own rule, a second one as the call for the abstract rule, further ones again for its own rule (-> count error)
        per_obj = {}
        for rule, what, t, problem in log:
            if what[0] == 'obj':
                per_obj.setdefault(what[3], []).append((t, problem, what[2]))
        for name, lst in per_obj.items():
            lst.sort()
            for k, c in enumerate(lst):
                calls.setdefault((c[2] if k != 1 else 'Item', name), []).append(c)
    for rule, what, t, problem in log:
        if what[0] == 'obj' and not shared_callable:
            calls.setdefault((rule, what[3]), []).append((t, problem, what[2]))
    has_abs = has_rep = False
    maxd = [0]

    def fail(msg):
        ctx.violation(None, msg, wit, rep)

    def check(n, d, slot_type):
        """returns False on violation"""
        nonlocal has_abs, has_rep
        maxd[0] = max(maxd[0], d)
        kind, name = n['kind'], n['name']
        own = calls.get((kind, name), [])
        ctx.count('processor_calls_checked', len(own))
        if len(own) != 1:
            fail('processor of rule %s ran %d times for object %s (expected once)' % (kind, len(own), name))
            return False
        if own[0][1]:
            fail('processor of %s ran for %s before the model was ready: %s' % (kind, name, own[0][1]))
            return False
        t_own = own[0][0]
        t_last = t_own
        if slot_type == 'Item':
            has_abs = True
            ab = calls.get(('Item', name), [])
            ctx.count('abstract_slot_calls', len(ab))
            if len(ab) != 1:
                fail('processor of abstract rule Item ran %d times for %s stored in an Item-typed attribute' % (len(ab), name))
                return False
            if ab[0][1]:
                fail('abstract-rule processor ran for %s before the model was ready: %s' % (name, ab[0][1]))
                return False
            if not ab[0][0] > t_own:
                fail('abstract-rule processor ran for %s before the processor of its own rule %s' % (name, kind))
                return False
            t_last = ab[0][0]
        for c, slot, st in children_of(n):
            tc = check(c, d + 1, st)
            if tc is False:
                return False
            if not tc < t_own:
                fail('container %s was processed before its contained object %s' % (name, c['name']))
                return False
        return t_last

    for rt in checked_roots:
        if check(rt, 0, None) is False:
            return
    # abstract processor must not run for objects that are not in an abstract-typed slot
    for (rule, name), lst in calls.items():
        if rule == 'Item':
            n = next((x for x in nodes_all if x['name'] == name), None)
            if n is None:
                fail('abstract-rule processor ran for unknown object %s' % name)
                return
    # match processors: once per written value
    nval = sum(1 for n in nodes_all if n['kind'] == 'Leaf' and n['val'] is not None)
    ntag = sum(1 for n in nodes_all if n['kind'] == 'Block' and n['tag'])
    gv = sum(1 for e in log if e[0] == 'Val')
    gt = sum(1 for e in log if e[0] == 'Tag')
    if (gv, gt) != (nval, ntag):
        fail('match-rule processors ran %d/%d times for %d/%d matched values (Val/Tag)' % (gv, gt, nval, ntag))
        return
    if unit_calls:
        fail('the processor of the abstract first rule Unit ran for %r: the model object is not the value of an attribute typed Unit' % (unit_calls[:3],))
        return
    # ---- replacements in place --------------------------------------------------------
    models = [m]
    repo = getattr(m, '_tx_model_repository', None)
    if repo is not None:
        models += [x for x in repo.all_models if x is not m]
    by_name = {getattr(x, 'name', None): x for x in models}

    def expected_value(n, slot_type):
        if shared_callable:
            return ('obj', n['name'])
        o = own_replacement(n['kind'], n['name'], salt)
        a = abs_replacement(n['name'], salt) if slot_type == 'Item' else None
        if o is not None:
            return ('rep', o)
        if a is not None:
            return ('rep', a)
        return ('obj', n['name'])

    def verify(n, obj):
        nonlocal has_rep
        for attr in ('first', 'items', 'alt'):
            kids = [(c, st) for c, slot, st in children_of(n) if slot == attr]
            val = getattr(obj, attr, None)
            vals = val if isinstance(val, list) else ([] if val is None and not kids else [val])
            if len(vals) != len(kids):
                fail('attribute %s.%s holds %d values, %d objects were written' % (n['name'], attr, len(vals), len(kids)))
                return False
            for (c, st), v in zip(kids, vals):
                exp = expected_value(c, st)
                if exp[0] == 'rep':
                    has_rep = True
                    ctx.count('replacements_checked')
                    if not exp[1]:
                        ctx.count('falsy_replacements')
                    if type(v) is not type(exp[1]) or v != exp[1]:
                        fail('%s.%s: processor returned %r for %s, the attribute holds %r' % (
                            n['name'], attr, exp[1], c['name'], v if isinstance(v, (str, int, bool)) else type(v).__name__))
                        return False
                else:
                    if getattr(v, 'name', None) != c['name'] or isinstance(v, (str, int)):
                        fail('%s.%s: expected object %s, found %r' % (n['name'], attr, c['name'], v if isinstance(v, (str, int, bool)) else getattr(v, 'name', None)))
                        return False
                    if not verify(c, v):
                        return False
        return True
    for rt in checked_roots:
        obj = by_name.get(rt['name'])
        if obj is None:
            fail('model %s not found among the loaded models' % rt['name'])
            return
        if not verify(rt, obj):
            return
    if maxd[0] >= 3:
        ctx.count('depth3_models')
    ctx.case((tuple((n['kind']) for n in nodes_all), two_files, use_classes, multi_lang), maxd[0] >= 3 and has_abs and has_rep,
             {'files': texts, 'processor_calls': len(log)} if ctx.evaluations < 2 else None)


def run(ctx):
    for i in ctx.indices(4000 if ctx.tier == 'quick' else 10 ** 7, 'random'):
        one(ctx, i)


def replay(ctx, rep):
    one(ctx, rep['i'], rep)

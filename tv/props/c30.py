"""C30 - the textx CLI reports outcomes and passes generator arguments faithfully."""
import logging
import os
import shutil
import tempfile

ID = 'C30'
LEVEL = 'exploration'
QUICK_S = 60
THOROUGH_S = 300
TECHNIQUE = ('runtime monitoring: the click commands are invoked in-process (CliRunner) on generated command lines; exit code, '
             'log records and the keyword arguments received by a recording generator are compared with a small argv model')
RULE = ('check: 1-4 model files (valid; syntax error; unknown reference at a known line/col; text of another language) in random '
        'order with --grammar, with --language, or with neither (two registered languages whose file patterns share the last '
        'extension, files of both in one call); '
        'generate: 0-5 custom arguments (names with dashes / underscores / mixed, with values incl. quoted ones and values that start with a single dash, bare flags at '
        'the end, before another option, between model files) x generators without declared parameters and with declared '
        '(mandatory / optional) parameters x 1-3 model files. Oracle: check exits 0 iff every file loads, else 1 and the '
        'logged error names the first failing file with its line:col; generate passes every custom argument under its name '
        'with dashes turned into underscores (value or True), rejects undeclared / missing mandatory ones with exit 1 and '
        'calls the generator once per model file otherwise. distinct = command line shape; non-trivial = a dashed name, a bare '
        'flag, a declared-parameter generator or a failing file present')
REQUIRED = {'check_invocations': 300, 'check_mode_pattern': 80, 'check_mode_language': 40, 'check_two_languages_in_one_call': 30, 'check_failures_located': 100, 'generate_invocations': 500, 'bare_flags': 100,
            'dashed_names': 200, 'declared_generators': 100, 'undeclared_rejected': 30, 'missing_mandatory_rejected': 30,
            'values_starting_with_dash': 50, 'generate_language_pattern': 50, 'declared_parameter_given_with_empty_or_falsy_value': 50,
            'generate_language_with_own_generator_for_another_target': 30}

GRAMMAR = '''
Model: (defs+=Def | refs+=Ref)*;
Def: 'def' name=ID;
Ref: 'ref' target=[Def];
'''


class Capture(logging.Handler):
    def __init__(self):
        super().__init__()
        self.records = []

    def emit(self, record):
        try:
            self.records.append(record.getMessage())
        except Exception:
            self.records.append(str(record.msg))


_cli = {}


def cli():
    if not _cli:
        from textx.cli import textx
        from textx.cli.check import check
        from textx.cli.generate import generate
        if 'check' not in textx.commands:
            check(textx)
        if 'generate' not in textx.commands:
            generate(textx)
        _cli['textx'] = textx
    return _cli['textx']


def invoke(args):
    from click.testing import CliRunner
    cap = Capture()
    root = logging.getLogger()
    root.addHandler(cap)
    old = root.level
    root.setLevel(logging.INFO)
    try:
        res = CliRunner().invoke(cli(), args)
    finally:
        root.removeHandler(cap)
        root.setLevel(old)
    return res, cap.records


def one(ctx, i, rep=None):
    rep = rep or {'i': i}
    r = ctx.rng('c', i)
    tmp = tempfile.mkdtemp(prefix='tvc30_')
    try:
        gpath = os.path.join(tmp, 'lang.tx')
        with open(gpath, 'w') as f:
            f.write(GRAMMAR)
        if i % 3 == 0:
            check_case(ctx, r, tmp, gpath, rep)
        else:
            generate_case(ctx, r, tmp, gpath, rep)
    finally:
        shutil.rmtree(tmp, ignore_errors=True)


GRAMMAR2 = '''
Model: (defs+=Def | refs+=Ref)*;
Def: 'make' name=ID;
Ref: 'use' target=[Def];
'''
WORDS = {1: ('def', 'ref'), 2: ('make', 'use')}


def check_case(ctx, r, tmp, gpath, rep):
    """mode grammar: --grammar file; mode language: --language name; mode pattern: no option, the language of every
    file is found through the registered file patterns (two languages whose patterns share the last extension)"""
    from textx import register_language, clear_language_registrations, LanguageDesc, metamodel_from_str
    mode = r.choice(['grammar', 'grammar', 'language', 'pattern', 'pattern'])
    files = []
    first_bad = None
    for k in range(r.randint(1, 4)):
        lang = r.choice([1, 2]) if mode == 'pattern' else 1
        d, u = WORDS[lang]
        kind = r.choice(['ok', 'ok', 'syntax', 'unknown', 'other_language'] if mode == 'pattern' else ['ok', 'ok', 'syntax', 'unknown'])
        lead = r.choice(['', '\n', '\n\n  ', '   '])
        body = '%s a %s b\n%s a\n' % (d, d, u)
        if kind == 'syntax':
            text = body + lead + '@@ junk\n'
            off = len(body + lead)
        elif kind == 'unknown':
            text = body + lead + '%s nowhere\n' % u
            off = len(body + lead) + len(u) + 1
        elif kind == 'other_language':
            # a text of the OTHER language in a file whose name says this language: a syntax error at its first word
            od, ou = WORDS[3 - lang]
            text = lead + '%s a\n' % od
            off = len(lead)
        else:
            text = body
        ext = {'grammar': '.mdl', 'language': '.mdl', 'pattern': '.l%d.mdl' % lang}[mode]
        p = os.path.join(tmp, 'm%d%s' % (k, ext))
        with open(p, 'w') as f:
            f.write(text)
        if kind != 'ok':
            line = text.count('\n', 0, off) + 1
            col = off - (text.rfind('\n', 0, off) + 1) + 1
            if first_bad is None:
                first_bad = (p, (line, col), kind)
        files.append((p, kind, lang))
    args = ['check']
    if mode == 'grammar':
        args += ['--grammar', gpath]
    elif mode == 'language':
        args += ['--language', r.choice(['tvlang1', 'TvLang1'])]
    args += [p for p, _, _ in files]
    clear_language_registrations()
    try:
        if mode != 'grammar':
            register_language(LanguageDesc('tvlang1', pattern='*.l1.mdl' if mode == 'pattern' else '*.mdl', description='l1',
                                           metamodel=lambda: metamodel_from_str(GRAMMAR)))
            register_language(LanguageDesc('tvlang2', pattern='*.l2.mdl', description='l2', metamodel=lambda: metamodel_from_str(GRAMMAR2)))
        res, logs = invoke(args)
    finally:
        clear_language_registrations()
    ctx.count('check_invocations')
    ctx.count('check_mode_' + mode)
    if mode == 'pattern' and len({l for _, _, l in files}) == 2:
        ctx.count('check_two_languages_in_one_call')
    wit = {'argv': args, 'files': [(os.path.basename(p), k) for p, k, _ in files], 'exit_code': res.exit_code, 'log': logs[-5:]}
    ctx.case(('check', mode, tuple((k, l) for _, k, l in files)), first_bad is not None, wit if ctx.evaluations < 2 else None)
    exp = 0 if first_bad is None else 1
    if res.exit_code != exp:
        ctx.violation(None, 'textx check (%s) exited with %r, expected %d (%s)' % (mode, res.exit_code, exp, [(k, l) for _, k, l in files]), wit, rep)
        return
    if first_bad:
        ctx.count('check_failures_located')
        p, (line, col), kind = first_bad
        msg = '\n'.join(logs)
        if os.path.abspath(p) not in msg or ':%d:%d:' % (line, col) not in msg:
            ctx.violation(None, 'textx check: the error message does not locate the %s error at %s:%d:%d: %r' % (
                kind, os.path.basename(p), line, col, logs[-2:]), wit, rep)
    else:
        oks = sum(1 for l in logs if l.endswith(': OK.'))
        if oks != len(files):
            ctx.violation(None, 'textx check reported %d OK lines for %d valid files' % (oks, len(files)), wit, rep)


NAMES = ['color', 'out-dir', 'max_depth', 'a-b-c', 'x', 'with-header', 'mixed_name-x', 'lang_opt', 'project-root', 'project_root']  # project_root is also a model parameter of every metamodel


def generate_case(ctx, r, tmp, gpath, rep):
    from textx import register_generator, clear_generator_registrations, GeneratorDesc
    from textx.registration import GeneratorParam
    calls = []

    def gen(metamodel, model, output_path, overwrite, debug, **custom):
        calls.append((getattr(model, '_tx_filename', None), dict(custom), overwrite, output_path))
    declared = None
    if r.random() < 0.4:
        declared = []
        declared_src = r.sample(NAMES, r.randint(1, 3))
        for n in declared_src:
            declared.append(GeneratorParam(name=n.replace('-', '_'), description='p', mandatory=r.random() < 0.5))
        ctx.count('declared_generators')
    # how the language of the model files is found: --grammar, --language, or deduced from the file name; the language may
    # have a generator of its own for ANOTHER target (the requested one is registered for 'any' only)
    from textx import register_language, clear_language_registrations, LanguageDesc, metamodel_from_str
    lang_mode = r.choice(['grammar', 'grammar', 'pattern'])     # (with --language only that language's own generators are used)
    own_gen = lang_mode != 'grammar' and r.random() < 0.6
    other_calls = []
    clear_generator_registrations()
    clear_language_registrations()
    try:
        register_generator(GeneratorDesc(language='any', target='rec', description='recording', generator=gen, custom_args=declared))
        if lang_mode != 'grammar':
            register_language(LanguageDesc('tvlang1', pattern='*.mdl', description='l1', metamodel=lambda: metamodel_from_str(GRAMMAR)))
            ctx.count('generate_language_' + lang_mode)
        if own_gen:
            register_generator(GeneratorDesc(language='tvlang1', target='summary', description='own generator, other target',
                                             generator=lambda *a, **k: other_calls.append(a)))
            ctx.count('generate_language_with_own_generator_for_another_target')
        nfiles = r.randint(1, 3)
        paths = []
        for k in range(nfiles):
            p = os.path.join(tmp, 'g%d.mdl' % k)
            with open(p, 'w') as f:
                f.write('def a ref a\n')
            paths.append(p)
        # custom arguments
        items = []
        exp = {}
        for _ in range(r.randint(0, 5)):
            n = r.choice(NAMES)
            if r.random() < 0.4:
                items.append(('flag', n))
            else:
                v = r.choice(['red', '42', 'a b', 'x_y', '"quoted"', "'q'", 'path/to', 'v-w', '0', '-4', '-O2', '-', '-x=1', '=', 'a=b', '', '""', "''", 'False'])
                if v.startswith('-'):
                    ctx.count('values_starting_with_dash')
                items.append(('val', n, v))
        if declared and r.random() < 0.35:
            # a declared (possibly mandatory) parameter given with an empty / falsy-looking value: it IS given
            k_ = r.randrange(len(declared))
            items = [it for it in items if it[1].replace('-', '_') != declared[k_].name]
            items.append(('val', declared_src[k_], r.choice(['', '""', "''", '0', 'False'])))
            ctx.count('declared_parameter_given_with_empty_or_falsy_value')
        # argv: options and model files interleaved
        argv = ['generate', '--target', 'rec']
        if lang_mode == 'grammar':
            argv[1:1] = ['--grammar', gpath]
        elif lang_mode == 'language':
            argv[1:1] = ['--language', r.choice(['tvlang1', 'TVLANG1'])]
        if r.random() < 0.5:
            argv.append('--overwrite')
        pool = [('file', p) for p in paths] + items
        r.shuffle(pool)
        seq = []
        for it in pool:
            if it[0] == 'file':
                seq.append(it[1])
            elif it[0] == 'flag':
                seq.append('--' + it[1])
            else:
                seq.extend(['--' + it[1], it[2]])
        # the documented reading of the tail: a '--name' followed by something that does not start with '--' takes it as value
        toks = list(seq)
        files_seen = []
        k = 0
        while k < len(toks):
            t = toks[k]
            if t.startswith('--'):
                name = t[2:].replace('-', '_')
                if '-' in t[2:]:
                    ctx.count('dashed_names')
                if k + 1 >= len(toks) or toks[k + 1].startswith('--'):
                    exp[name] = True
                    ctx.count('bare_flags')
                    k += 1
                else:
                    exp[name] = toks[k + 1].strip('"\'')
                    k += 2
            else:
                files_seen.append(t)
                k += 1
        argv += seq
        res, logs = invoke(argv)
        ctx.count('generate_invocations')
        wit = {'argv': argv, 'declared': [(d.name, d.mandatory) for d in declared] if declared else None, 'exit_code': res.exit_code,
               'log': logs[-4:], 'generator_calls': [(os.path.basename(c[0] or ''), c[1]) for c in calls], 'expected_kwargs': exp,
               'exception': repr(res.exception) if res.exception and not isinstance(res.exception, SystemExit) else None}
        ctx.case(('generate', tuple('F' if not t.startswith('--') and t in paths else ('O' if t.startswith('--') else 'V') for t in seq),
                  declared is not None), bool(exp) or declared is not None, wit if ctx.evaluations < 3 else None)
        expect_fail = None
        if declared is not None:
            dn = {d.name for d in declared}
            missing = [d.name for d in declared if d.mandatory and d.name not in exp]
            undeclared = [n for n in exp if n not in dn]
            if missing:
                expect_fail = 'missing mandatory %r' % missing
                ctx.count('missing_mandatory_rejected')
            elif undeclared:
                expect_fail = 'undeclared %r' % undeclared
                ctx.count('undeclared_rejected')
        if not files_seen:
            # a custom argument swallowed every model file as its value: the command then runs without a model, which
            # is outside this property
            ctx.count('no_model_file_left_skipped')
            return
        if expect_fail:
            if res.exit_code != 1:
                ctx.violation(None, 'textx generate exited with %r although %s' % (res.exit_code, expect_fail), wit, rep)
            return
        if res.exit_code != 0:
            ctx.violation(None, 'textx generate failed (exit %r): %s' % (res.exit_code, (logs[-1:] or [wit['exception']])), wit, rep)
            return
        want_calls = max(1, len(files_seen))
        if len(calls) != want_calls:
            ctx.violation(None, 'the generator was called %d times for %d model files' % (len(calls), len(files_seen)), wit, rep)
            return
        for c in calls:
            if c[1] != exp:
                ctx.violation(classify(c[1], exp), 'generator received custom arguments %r, the command line gives %r' % (c[1], exp), wit, rep)
                return
        if other_calls:
            ctx.violation(None, 'the generator of another target was called', wit, rep)
    finally:
        clear_generator_registrations()
        clear_language_registrations()


def classify(got, exp):
    return None


def run(ctx):
    for i in ctx.indices(4500 if ctx.tier == 'quick' else 10 ** 7, 'random'):
        one(ctx, i)


def replay(ctx, rep):
    one(ctx, rep['i'], rep)

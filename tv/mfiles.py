"""Generator of directories of model files with random import graphs, and an open() spy (C17, C18, C27, C28)."""
import builtins
import os

GRAMMAR = '''
Model: imports*=Import (defs+=Def | refs+=Ref)*;
Import: 'import' importURI=STRING;
Def: 'def' name=ID ('{' defs*=Def '}')?;
Ref: 'ref' name=ID '->' target=[Def:FQN] ('also' more+=[Def:FQN][','])?;
FQN: ID('.'ID)*;
Comment: /\\/\\/.*$/;
'''

GRAMMAR_RREL = GRAMMAR.replace("target=[Def:FQN]", "target=[Def:FQN|+m:defs.defs*]").replace(
    "more+=[Def:FQN]", "more+=[Def:FQN|+m:defs.defs*]")


class Spy:
    """counts builtins.open calls per absolute path under a directory"""

    def __init__(self):
        self.installed = False
        self.counts = {}
        self.root = None
        self.fail_at = None

    def install(self):
        if self.installed:
            return
        orig = builtins.open
        spy = self

        def open_(file, *a, **k):
            try:
                p = os.path.abspath(file) if isinstance(file, (str, bytes, os.PathLike)) else None
            except Exception:
                p = None
            if p and spy.root and isinstance(p, str) and p.startswith(spy.root):
                mode = a[0] if a else k.get('mode', 'r')
                if 'r' in mode and '+' not in mode:
                    spy.counts[p] = spy.counts.get(p, 0) + 1
            return orig(file, *a, **k)
        builtins.open = open_
        self.installed = True

    def reset(self, root):
        self.root = os.path.abspath(root)
        self.counts = {}


SPY = Spy()


class Dir:
    """files: name -> dict(path, imports [names in order], defs [(name, [subdefs])], refs [(refname, target text, expected (file, path))])"""

    def __init__(self):
        self.files = {}
        self.order = []


def gen_dir(r, root, nfiles=None, allow_cycles=True, subdirs=True, collisions=True, nested=False):
    d = Dir()
    n = nfiles or r.randint(2, 7)
    names = []
    for k in range(n):
        sub = ''
        if subdirs and r.random() < 0.3:
            sub = r.choice(['sub', 'sub/deep', 'lib'])
        nm = os.path.join(sub, 'f%d.m' % k) if sub else 'f%d.m' % k
        names.append(nm)
        d.files[nm] = {'path': os.path.join(root, nm), 'imports': [], 'defs': [], 'refs': []}
    d.order = names
    # import edges
    for k, nm in enumerate(names):
        cands = names if allow_cycles else names[k + 1:]
        for _ in range(r.choice([0, 1, 1, 2, 3])):
            if not cands:
                break
            t = r.choice(cands)
            if t not in d.files[nm]['imports'] and (allow_cycles or t != nm):
                d.files[nm]['imports'].append(t)
    # definitions: unique names per file plus colliding names
    for k, nm in enumerate(names):
        f = d.files[nm]
        for j in range(r.randint(1, 3)):
            subs = ['s%d' % q for q in range(r.randint(0, 2))] if nested else []
            f['defs'].append(('d%d_%d' % (k, j), subs))
        if collisions and r.random() < 0.5:
            f['defs'].append((r.choice(['shared', 'common']), []))
    return d


def closure(d, start):
    seen = []
    todo = [start]
    while todo:
        x = todo.pop(0)
        if x in seen:
            continue
        seen.append(x)
        todo.extend(d.files[x]['imports'])
    return seen


def visible_plain(d, fname, name):
    """PlainName + ImportURI lookup order: the model itself, then its directly imported models in import order
    (each file once). Returns the file that provides `name` (top-level or nested def) or None."""
    seenf = []
    for cand in [fname] + d.files[fname]['imports']:
        if cand in seenf:
            continue
        seenf.append(cand)
        for dn, subs in d.files[cand]['defs']:
            if dn == name or name in subs:
                return cand
    return None


def add_refs(d, r, per_file=(0, 3)):
    """references whose targets are resolvable by the plain-name / import order rule; unique sub names are avoided"""
    for fname in d.order:
        f = d.files[fname]
        pool = []
        for cand in [fname] + f['imports']:
            for dn, subs in d.files[cand]['defs']:
                pool.append(dn)
        pool = sorted(set(pool))
        for j in range(r.randint(*per_file)):
            if not pool:
                break
            nm = r.choice(pool)
            more = [r.choice(pool) for _ in range(r.choice([0, 0, 2]))]
            f['refs'].append(('r%s_%d' % (fname.replace('/', '_').replace('.', '_'), j), nm, more))


def rel_import(frm, to):
    return os.path.relpath(to, os.path.dirname(frm) or '.').replace(os.sep, '/')


def file_text(d, fname, extra=''):
    f = d.files[fname]
    out = []
    for imp in f['imports']:
        out.append('import "%s"' % rel_import(fname, imp))
    for dn, subs in f['defs']:
        if subs:
            out.append('def %s { %s }' % (dn, ' '.join('def ' + s for s in subs)))
        else:
            out.append('def %s' % dn)
    for rn, tgt, more in f['refs']:
        out.append('ref %s -> %s%s' % (rn, tgt, (' also ' + ' , '.join(more)) if more else ''))
    return '\n'.join(out) + '\n' + extra


def write_dir(d, texts=None):
    for fname in d.order:
        p = d.files[fname]['path']
        os.makedirs(os.path.dirname(p), exist_ok=True)
        with open(p, 'w') as fh:
            fh.write((texts or {}).get(fname) or file_text(d, fname))

"""Reference (set-semantics) RREL evaluator and the model family used by C11/C12."""
import textx.scoping.rrel as R
from textx import textx_isinstance

GR = r'''
Model: packages*=Package;
Package: 'package' name=ID '{' (packages+=Package | classes+=Class | uses+=Use)* '}';
Class: 'class' name=ID ('extends' sup+=[Class:FQN|^packages*.classes][','])? '{' (methods+=Method | attrs+=Attr)* '}';
Method: 'm' name=ID;
Attr: 'a' name=ID (':' type=[Class:FQN|^packages*.classes])?;
Use: 'use' name=ID '=' pkg=[Package:FQN|^packages*];
FQN: ID('.'ID)*;
'''
_MM = None


def metamodel():
    global _MM
    if _MM is None:
        from textx import metamodel_from_str
        _MM = metamodel_from_str(GR)
    return _MM

def gen_model(rnd, dup=False):
    names = ['a', 'b', 'c', 'd']
    classes = []
    def pkg(depth, path):
        s = ''
        used = set()
        n = rnd.randint(1, 3)
        for _ in range(n):
            nm = rnd.choice(names)
            if nm in used and not dup:
                continue
            used.add(nm)
            if depth < 2 and rnd.random() < 0.4:
                s += f'package {nm} {{ {pkg(depth + 1, path + [nm])} }} '
            else:
                sup = ''
                if classes and rnd.random() < 0.5:
                    sup = ' extends ' + ', '.join('.'.join(rnd.choice(classes)) for _ in range(rnd.randint(1, 2)))
                body = ''
                um = set()
                for _ in range(rnd.randint(0, 3)):
                    mn = rnd.choice(names + ['f', 'g'])
                    if mn in um and not dup:
                        continue
                    um.add(mn)
                    if rnd.random() < 0.6:
                        body += f'm {mn} '
                    else:
                        t = (' : ' + '.'.join(rnd.choice(classes))) if classes and rnd.random() < 0.6 else ''
                        body += f'a {mn}{t} '
                s += f'class {nm}{sup} {{ {body}}} '
                classes.append(path + [nm])
        return s
    txt = ''
    used = set()
    for _ in range(rnd.randint(1, 3)):
        nm = rnd.choice(names)
        if nm in used:
            continue
        used.add(nm)
        txt += f'package {nm} {{ {pkg(0, [nm])} }}\n'
    return txt

ATTRS = ['packages', 'classes', 'methods', 'attrs', 'sup', 'type', 'uses', 'pkg']
TYPES = ['Package', 'Class', 'Model']

# ---- reference evaluator over textX's parsed tree (tree shape only; semantics are mine) ----
def parents(o):
    while hasattr(o, 'parent'):
        o = o.parent
        yield o

def root_of(o):
    while hasattr(o, 'parent'):
        o = o.parent
    return o

class Ref:
    def __init__(self, model, mm, emulate=()):
        self.model = model
        self.mm = mm
        self.emulate = set(emulate)
    def starts_locally(self, n):
        if isinstance(n, (R.RRELParent, R.RRELDots)): return True
        if isinstance(n, R.RRELNavigation): return False
        if isinstance(n, R.RRELBrackets): return self.starts_locally(n.seq)
        if isinstance(n, R.RRELSequence): return any(self.starts_locally(p) for p in n.paths)
        if isinstance(n, R.RRELZeroOrMore): return self.starts_locally(n.path_element)
        if isinstance(n, R.RRELPath): return self.starts_locally(n.path_elements[0])
    def starts_at_root(self, n):
        if isinstance(n, (R.RRELParent, R.RRELDots)): return False
        if isinstance(n, R.RRELNavigation): return True
        if isinstance(n, R.RRELBrackets): return self.starts_at_root(n.seq)
        if isinstance(n, R.RRELSequence): return any(self.starts_at_root(p) for p in n.paths)
        if isinstance(n, R.RRELZeroOrMore): return self.starts_at_root(n.path_element)
        if isinstance(n, R.RRELPath): return self.starts_at_root(n.path_elements[0])

    # state: (obj, rem(tuple), path(tuple of objs), first)
    def ev(self, n, st):
        obj, rem, path, first = st
        if isinstance(n, R.RRELNavigation):
            if first:
                obj = root_of(obj)
            if n.consume_name and not rem:
                return
            if not hasattr(obj, n.name):
                return
            tgt = getattr(obj, n.name)
            if tgt is None:
                return
            lst = tgt if isinstance(tgt, list) else [tgt]
            if not n.consume_name and n.fixed_name is None:
                for x in lst:
                    if x is not None:
                        yield (x, rem, path, False)
            elif n.fixed_name is not None:
                for x in lst:
                    if hasattr(x, 'name') and x.name == n.fixed_name:
                        yield (x, rem, path + (x,), False)
                        if 'first-sibling-only' in self.emulate:
                            break
            else:
                for x in lst:
                    if hasattr(x, 'name') and x.name == rem[0]:
                        yield (x, rem[1:], path + (x,), False)
                        if 'first-sibling-only' in self.emulate:
                            break
        elif isinstance(n, R.RRELParent):
            t = self.mm[n.type]
            for p in parents(obj):
                if textx_isinstance(p, t):
                    yield (p, rem, path, False)
                    return
        elif isinstance(n, R.RRELDots):
            o = obj
            k = n.num
            while k > 1:
                if not hasattr(o, 'parent'):
                    return
                o = o.parent
                k -= 1
            yield (o, rem, path, False)
        elif isinstance(n, R.RRELBrackets):
            yield from self.ev(n.seq, st)
        elif isinstance(n, R.RRELSequence):
            for p in n.paths:
                yield from self.ev(p, st)
        elif isinstance(n, R.RRELPath):
            states = [st]
            for i, e in enumerate(n.path_elements):
                nxt = []
                seen = set()
                for s in states:
                    for r in self.ev(e, s):
                        k = (id(r[0]), r[1])
                        if k not in seen:
                            seen.add(k)
                            nxt.append(r)
                states = nxt
            yield from states
        elif isinstance(n, R.RRELZeroOrMore):
            out = []
            seen = set()
            expanded = set()
            work = []

            def add(s):
                k = (id(s[0]), s[1])
                if k in seen:
                    return False
                seen.add(k)
                out.append(s)
                return True

            def push(s):
                k = (id(s[0]), s[1])
                if k not in expanded:
                    expanded.add(k)
                    work.append(s)
            blocked = None
            if first:
                if self.starts_locally(n):
                    add((obj, rem, path, False))
                if self.starts_at_root(n):
                    add((root_of(obj), rem, path, False))
                if 'leading-star-start-marked-visited' in self.emulate and self.starts_locally(n) and self.starts_at_root(n):
                    # textX marks the referencing object as visited for this '*' before the expansion (which really
                    # starts at the model root for navigation steps) reaches it again
                    blocked = (id(obj), len(rem))
                for r in self.ev(n.path_element.seq, (obj, rem, path, True)):
                    if blocked == (id(r[0]), len(r[1])):
                        continue
                    add(r)
                    push(r)
            else:
                s = (obj, rem, path, False)
                add(s)
                push(s)
            it = 0
            while work and it < 5000:
                it += 1
                s = work.pop()
                for r in self.ev(n.path_element.seq, s):
                    if blocked == (id(r[0]), len(r[1])):
                        continue
                    add(r)
                    push(r)
            yield from out
        else:
            raise TypeError(n)

    def results(self, expr, obj, names, cls):
        """list per top-level alternative of sets of (target, path)"""
        res = []
        for p in expr.seq.paths:
            s = []
            for (o, rem, path, _f) in self.ev(p, (obj, tuple(names), (), True)):
                if not rem and (cls is None or textx_isinstance(o, cls)):
                    s.append((o, path))
            res.append(s)
        return res


"""Regenerate MANIFEST.json from the property modules (python -m tv.mkmanifest)."""
import glob
import importlib
import json
import os

ROOT = os.path.dirname(os.path.dirname(os.path.abspath(__file__)))

NOT_BUILT = 'check not built (yet) in this framework; design in DESIGN.md section 4, no claim is made'


def main():
    props = [json.loads(l) for l in open(os.path.join(ROOT, 'properties.jsonl'))]
    checks = []
    have = set()
    for p in sorted(glob.glob(os.path.join(ROOT, 'tv', 'props', 'c[0-9]*.py'))):
        name = os.path.basename(p)[:-3]
        mod = importlib.import_module('tv.props.' + name)
        pid = mod.ID
        if getattr(mod, 'DISABLED', None):
            continue
        have.add(pid)
        checks.append({
            'property_id': pid,
            'quick_cmd': './check %s --tier quick' % pid,
            'thorough_cmd': './check %s --tier thorough' % pid,
            'evidence_file': 'evidence/%s.json' % pid,
            'replay_cmd_template': './check %s --replay {path}' % pid,
            'engine': 'tv',
            'level_claimed': {
                'category': mod.LEVEL,
                'text': getattr(mod, 'LEVEL_TEXT', 'held on the observed executions of the generated workload; see evidence file for what was observed'),
                'design_ref': 'DESIGN.md section 4, ' + pid,
            },
            'level_note': getattr(mod, 'LEVEL_NOTE', 'trusted: the harness oracle (tv/), CPython, Arpeggio as installed; only generated fragments are covered'),
            'technique': getattr(mod, 'TECHNIQUE', 'runtime monitoring: generated workload + oracle over observed executions'),
        })
    na = []
    reasons = {}
    rp = os.path.join(ROOT, 'not_applicable.json')
    if os.path.exists(rp):
        reasons = json.load(open(rp))
    for p in props:
        if p['id'] not in have:
            na.append({'property_id': p['id'], 'reason': reasons.get(p['id'], NOT_BUILT)})
    man = {
        'version': 1,
        'setup_cmd': './check --setup',
        'hooks': {
            'guard': 'TEXTX_VERIF',
            'enable': 'no source hooks: all monitors are installed from the harness (monkey-patching, wrappers around user callables, sys.monitoring); /repo is imported as it is (editable install), TV_REPO=<dir> selects another checkout',
            'baseline_off_cmd': 'cd /repo && /venv/bin/python -m pytest -ra -q -p no:cacheprovider --timeout=900 --continue-on-collection-errors',
            'source_commits': [],
            'add_only': True,
        },
        'engines': [{
            'name': 'tv', 'path': 'tv/',
            'serves_properties': sorted(have),
            'kind_free_text': 'python harness: workload generators, reference models, monitors (Arpeggio/textX hooks, sys.monitoring, fault injection), sharded runner with three-valued verdicts',
        }],
        'checks': checks,
        'not_applicable': na,
        'notes': 'Exit 0 held / 1 VIOLATION / 2 inconclusive. known_findings.json lists recorded and fixed defects. See DESIGN.md.',
    }
    with open(os.path.join(ROOT, 'MANIFEST.json'), 'w') as f:
        json.dump(man, f, indent=1)
    print('MANIFEST.json: %d checks, %d not claimed' % (len(checks), len(na)))


if __name__ == '__main__':
    main()

"""Differential driver: textX (compiled Arpeggio parser + model) vs the reference PEG interpreter."""
import re

from tv.refpeg import (Assign, Builder, Choice, Fail, Lit, Not, And, Opt, Re, Ref, RefParser, Rep, Rule, Seq, Unord,
                       assigns_in, attr_mult, dump_ref, pr_grammar, refs_in, rule_kinds, BASE_NAMES)
from tv.ggen import G, Deriver, mutate
from tv import refpeg as RP


class _Target:
    """what the permissive scope provider resolves every link reference to"""

    def __init__(self, name):
        self.name = name


def make_mm(text, **cfg):
    """metamodel for a generated grammar; link references resolve to a stand-in object carrying the name
    (resolution itself is the subject of C07-C11, not of the parsing checks)"""
    from textx import metamodel_from_str
    mm = metamodel_from_str(text, **cfg)
    if '=[' in text:
        mm.register_scope_providers({'*.*': lambda obj, attr, ref: _Target(ref.obj_name)})
    return mm


def dump_tx(v, depth=0):
    cls = v.__class__
    if hasattr(cls, '_tx_attrs') and not isinstance(v, (str, int, float, bool)):
        if depth > 600:
            return ('deep',)
        items = []
        for k, a in cls._tx_attrs.items():
            x = getattr(v, k, '<missing>')
            if a.ref and not a.cont:
                if isinstance(x, list):
                    items.append((k, ('list', tuple(('REF', a.cls.__name__, getattr(y, 'name', None)) for y in x))))
                else:
                    items.append((k, ('REF', a.cls.__name__, getattr(x, 'name', None)) if x is not None else ('NoneType', None)))
            else:
                items.append((k, dump_tx(x, depth + 1)))
        return (cls.__name__, tuple(sorted(items)))
    if isinstance(v, list):
        return ('list', tuple(dump_tx(x, depth + 1) for x in v))
    return (type(v).__name__, v)


def count_objs(d):
    """number of objects / list attributes in a dump"""
    if not isinstance(d, tuple) or not d:
        return 0, 0
    if d[0] == 'list':
        o = l = 0
        for x in d[1]:
            a, b = count_objs(x)
            o += a
            l += b
        return o, l + 1
    if len(d) == 2 and isinstance(d[1], tuple) and d[0] not in ('REF',) and all(isinstance(i, tuple) and len(i) == 2 for i in d[1]):
        o, l = 1, 0
        for k, x in d[1]:
            a, b = count_objs(x)
            o += a
            l += b
        return o, l
    return 0, 0


def textx_outcome(mm, s, **kw):
    from textx import TextXSyntaxError, TextXSemanticError
    try:
        m = mm.model_from_str(s, **kw)
        return ('ok', dump_tx(m))
    except TextXSyntaxError as e:
        return ('reject', e.line, e.col)
    except TextXSemanticError as e:
        return ('semerr', getattr(e, 'err_type', None), str(e)[:100])
    except RecursionError:
        return ('crash', 'RecursionError')
    except Exception as e:
        return ('crash', type(e).__name__ + ': ' + str(e)[:100])


def ref_outcome(g, s, cfg, emulate=()):
    try:
        rp = RefParser(g, s, cfg.get('skipws', True), cfg.get('ws'), emulate=emulate,
                       ignore_case=cfg.get('ignore_case', False), autokwd=cfg.get('autokwd', False))
        tree = rp.run()
        # every terminal of the derivation, suppressed ones included: (start, end, kind, text)
        tree.terminals = list(rp.tlog)
        b = Builder(g, cfg.get('auto_init_attributes', True), cfg.get('use_regexp_group', False), emulate=emulate)
        return ('ok', dump_ref(b.value(tree))), tree
    except Fail:
        return ('reject',), None
    except RecursionError:
        return ('budget',), None


def ref_variants_ignore_case(g, tree, cfg):
    """the readings of string-literal values that C20 leaves open (grammar spelling / as written)"""
    out = []
    for emu in ((), ('lit-as-written',), ('kwlit-as-written',)):
        b = Builder(g, cfg.get('auto_init_attributes', True), cfg.get('use_regexp_group', False), emulate=emu)
        out.append(('ok', dump_ref(b.value(tree))))
    return out


def grammar_features(g):
    """static shapes used by classifiers"""
    f = set()
    for r in g.rules:
        if (r.skipws is not None or r.ws is not None):
            f.add('rule-modifier')
            if not isinstance(r.body, (Seq, Choice, Lit, Re, Ref)):
                f.add('modifier-on-non-sequence-body')
            if r.ws is not None:
                f.add('ws-modifier')
        for e in walk(r.body):
            if isinstance(e, (Rep, Assign)) and getattr(e, 'eolterm', False):
                f.add('eolterm')
            if isinstance(e, Rep) and e.sep is not None or isinstance(e, Assign) and e.sep is not None:
                f.add('separator')
            if isinstance(e, Unord):
                f.add('unordered')
            if isinstance(e, (And, Not)):
                f.add('predicate')
            if getattr(e, 'suppress', False):
                f.add('suppress')
            if isinstance(e, Re) and re.compile(e.pat).groups == 1:
                f.add('regex-one-group')
    if g.rule('Comment') is not None:
        f.add('comment')
    return f


def walk(e):
    yield e
    if isinstance(e, (Seq, Unord)):
        for x in e.items:
            yield from walk(x)
    elif isinstance(e, Choice):
        for x in e.alts:
            yield from walk(x)
    elif isinstance(e, (Opt, Rep, And, Not)):
        yield from walk(e.e)
        if isinstance(e, Rep) and e.sep is not None:
            yield from walk(e.sep)
    elif isinstance(e, Assign):
        if not isinstance(e.rhs, str):
            yield e.rhs
        if e.sep is not None:
            yield e.sep


def skeleton(g):
    """structure with names and literal texts erased"""
    def sk(e):
        if isinstance(e, Lit):
            return 'L' + ('-' if e.suppress else '')
        if isinstance(e, Re):
            return 'R' + ('-' if e.suppress else '')
        if isinstance(e, Ref):
            return ('B:' + e.name) if e.name in BASE_NAMES else 'N'
        if isinstance(e, Seq):
            return ('S', tuple(sk(x) for x in e.items), e.suppress)
        if isinstance(e, Unord):
            return ('U', tuple(sk(x) for x in e.items))
        if isinstance(e, Choice):
            return ('C', tuple(sk(x) for x in e.alts), e.suppress)
        if isinstance(e, Opt):
            return ('O', sk(e.e))
        if isinstance(e, Rep):
            return ('*+'[e.min], sk(e.e), e.sep is not None, e.eolterm)
        if isinstance(e, And):
            return ('&', sk(e.e))
        if isinstance(e, Not):
            return ('!', sk(e.e))
        if isinstance(e, Assign):
            return ('=', e.op, sk(e.rhs) if not isinstance(e.rhs, str) else 'ref', e.sep is not None, e.eolterm)
        return type(e).__name__
    return tuple((sk(r.body), r.skipws, r.ws) for r in g.rules)


def token_kinds(s):
    out = []
    for t in re.findall(r'\s+|\w+|"[^"]*"|\'[^\']*\'|.', s, re.S):
        if t.isspace():
            out.append('_')
        elif t[0].isdigit():
            out.append('9')
        elif t[0].isalpha() or t[0] == '_':
            out.append('a')
        elif t[0] in '"\'':
            out.append('s')
        else:
            out.append(t[0])
    return ''.join(out)[:80]


def random_cfg(r):
    cfg = dict(skipws=r.random() < 0.85, auto_init_attributes=r.random() < 0.6, use_regexp_group=r.random() < 0.3)
    if r.random() < 0.2:
        cfg['ws'] = r.choice([' ', ' \t', ' \n'])
    return cfg


def make_inputs(g, r, cfg, n, mutate_every=3):
    out = []
    for ii in range(n):
        d = Deriver(g, r, cfg.get('skipws', True), cfg.get('ws'))
        d.hostile = (ii % 3 == 1)
        try:
            s = d.run()
        except RecursionError:
            continue
        if mutate_every and ii % mutate_every == mutate_every - 1:
            s = mutate(s, r)
        out.append(s)
    return out


def pr_variant(g, variant):
    """grammar text with string literals spelled plainly (0) or with escape sequences (1-3, see refpeg.q)"""
    RP.LIT_VARIANT = variant
    try:
        return RP.pr_grammar(g)
    finally:
        RP.LIT_VARIANT = 0

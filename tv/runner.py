"""Runner: tiers, seeds, sharding, watchdog, verdicts, known findings, evidence, replay.

Parent:  ./check C07 [--tier quick|thorough] [--seed N] [--shards N] [--budget S]
         ./check C07 --replay out/replay/C07-xxxx.json
Worker:  python -m tv.runner --worker C07 --shard k --nshards n --out FILE ...

Exit codes: 0 held on what was explored (known findings may be printed),
            1 VIOLATION line(s) printed, 2 inconclusive (never 'held').
"""
import argparse
import hashlib
import importlib
import json
import os
import random
import signal
import subprocess
import sys
import time
import traceback

ROOT = os.path.dirname(os.path.dirname(os.path.abspath(__file__)))
PY = '/venv/bin/python'
DEPS = os.path.join(ROOT, '.deps')
OUT = os.path.join(ROOT, 'out')


def _setup_path():
    repo = os.environ.get('TV_REPO')
    if repo:
        sys.path.insert(0, repo)
    if os.path.isdir(DEPS) and DEPS not in sys.path:
        sys.path.append(DEPS)


def ensure_deps():
    """Nothing outside /venv is needed: the monitors are plain Python (monkey patches, wrappers, reference models).
    Setup only verifies that the interpreter imports textX from the checkout under test and its dependencies."""
    try:
        _setup_path()
        import textx
        import arpeggio
        import click  # noqa: F401
        where = os.path.dirname(os.path.dirname(os.path.abspath(textx.__file__)))
        print('setup: textx from %s, arpeggio %s' % (where, getattr(arpeggio, '__version__', '?')))
        return True
    except Exception as e:      # pragma: no cover
        print('setup: import problem: %r' % e)
        return False


def load_prop(pid):
    return importlib.import_module('tv.props.' + pid.lower())


def fp_hash(x):
    return hashlib.blake2b(repr(x).encode('utf8', 'replace'), digest_size=6).hexdigest()


class CaseTimeout(BaseException):
    """raised inside a case by Ctx.time_limit: the case is skipped and counted, never judged"""


class _TimeLimit:
    """SIGALRM based limit for one case. The alarm may fire at any bytecode boundary, also while the block is being left:
    the handler raises only while the limit is active, and __exit__ swallows a timeout that fires while it disarms."""

    def __init__(self, ctx, seconds):
        self.ctx, self.seconds = ctx, seconds
        self.active = False

    def __enter__(self):
        def handler(signum, frame):
            if self.active:
                raise CaseTimeout()
        self.old = signal.signal(signal.SIGALRM, handler)
        self.active = True
        signal.setitimer(signal.ITIMER_REAL, self.seconds)
        return self

    def __exit__(self, et, ev, tb):
        late = False
        try:
            self.active = False
            signal.setitimer(signal.ITIMER_REAL, 0)
            signal.signal(signal.SIGALRM, self.old)
        except CaseTimeout:
            late = True
            self.active = False
            signal.setitimer(signal.ITIMER_REAL, 0)
            signal.signal(signal.SIGALRM, self.old)
        if et is CaseTimeout or (late and et is None):
            self.ctx.count('case_timeouts_skipped')
            return True
        return False


class Ctx:
    """Per-shard context handed to a property module."""

    MAX_FP = 150000
    MAX_SAMPLES = 4
    MAX_VIOL = 40

    def __init__(self, pid, tier, seed, shard, nshards, budget):
        self.pid = pid
        self.tier = tier
        self.seed = seed
        self.shard = shard
        self.nshards = nshards
        self.t0 = time.time()
        self.deadline = self.t0 + budget
        self.counters = {}
        self.evaluations = 0
        self.fps = set()
        self.fp_overflow = 0
        self.samples = []
        self.violations = []
        self.viol_counts = {}
        self.truncated = {}
        self.exhaustive = {}
        self.notes = {}
        self.replaying = False

    # ---- randomness -------------------------------------------------
    def rng(self, *key):
        return random.Random('%s:%d:%s' % (self.pid, self.seed, ':'.join(map(str, key))))

    # ---- iteration --------------------------------------------------
    def time_left(self):
        return self.deadline - time.time()

    def indices(self, n, phase='main', exhaustive=False):
        """This shard's share of range(n); stops (and records it) when the budget is used."""
        done = 0
        mine = 0
        for i in range(self.shard, n, self.nshards):
            mine += 1
            if time.time() > self.deadline:
                self.truncated[phase] = self.truncated.get(phase, 0) + \
                    len(range(i, n, self.nshards))
                break
            yield i
            done += 1
        if exhaustive:
            self.exhaustive[phase] = (done == mine) and self.exhaustive.get(phase, True)

    def share(self, seq, phase='main', exhaustive=False):
        seq = list(seq)
        for i in self.indices(len(seq), phase, exhaustive):
            yield seq[i]

    def time_limit(self, seconds):
        """with ctx.time_limit(5): ...   a case that takes longer is abandoned (counted, not judged)"""
        return _TimeLimit(self, seconds)

    # ---- recording --------------------------------------------------
    def count(self, name, n=1):
        self.counters[name] = self.counters.get(name, 0) + n

    def maxc(self, name, v):
        if v > self.counters.get(name, 0):
            self.counters[name] = v

    def case(self, fingerprint=None, nontrivial=True, sample=None):
        self.evaluations += 1
        if nontrivial and fingerprint is not None:
            if len(self.fps) < self.MAX_FP:
                self.fps.add(fp_hash(fingerprint))
            else:
                self.fp_overflow += 1
        if sample is not None and len(self.samples) < self.MAX_SAMPLES:
            self.samples.append(sample)

    def violation(self, key, what, witness=None, replay=None):
        """key: mechanism name decided by the module's classifier, or None (unclassified)."""
        k = key or 'unclassified'
        self.viol_counts[k] = self.viol_counts.get(k, 0) + 1
        per_key = sum(1 for v in self.violations if v['key'] == k)
        if per_key < 3 and len(self.violations) < self.MAX_VIOL:
            self.violations.append({'key': k, 'what': what, 'witness': witness or {},
                                    'replay': replay or {}})

    def note(self, k, v):
        self.notes[k] = v

    def result(self):
        return {
            'shard': self.shard, 'evaluations': self.evaluations, 'fps': sorted(self.fps),
            'fp_overflow': self.fp_overflow, 'samples': self.samples,
            'counters': self.counters, 'violations': self.violations,
            'viol_counts': self.viol_counts, 'truncated': self.truncated,
            'exhaustive': self.exhaustive, 'notes': self.notes,
            'wall_s': round(time.time() - self.t0, 2),
        }


def jsonable(x, depth=0):
    if depth > 12:
        return repr(x)[:200]
    if isinstance(x, (str, int, float, bool)) or x is None:
        return x
    if isinstance(x, dict):
        return {str(k): jsonable(v, depth + 1) for k, v in x.items()}
    if isinstance(x, (list, tuple, set, frozenset)):
        return [jsonable(v, depth + 1) for v in x]
    return repr(x)[:400]


def worker(args):
    _setup_path()
    sys.setrecursionlimit(6000)
    ctx = Ctx(args.worker, args.tier, args.seed, args.shard, args.nshards, args.budget)
    res = None
    try:
        mod = load_prop(args.worker)
        # regression corpus: cases (seed, replay record) that once showed a defect are replayed in every run
        for k, (rseed, rrep) in enumerate(getattr(mod, 'REGRESSIONS', [])):
            if k % args.nshards != args.shard:
                continue
            old = ctx.seed
            ctx.seed = rseed
            try:
                mod.replay(ctx, dict(rrep, _seed=rseed))
            finally:
                ctx.seed = old
            ctx.count('regression_cases_replayed')
        mod.run(ctx)
        res = ctx.result()
    except CaseTimeout:
        # the per-case watchdog fired outside the block it guards (a late alarm on a starved machine): the case is
        # skipped and this shard ends here with what it has; the run's deciding counters say whether that was enough
        ctx.count('case_timeouts_skipped')
        ctx.count('shards_ended_by_a_late_watchdog_alarm')
        res = ctx.result()
    except BaseException:
        res = ctx.result()
        res['harness_error'] = traceback.format_exc()[-4000:]
    with open(args.out, 'w') as f:
        json.dump(jsonable(res), f)
    return 0


def load_known():
    p = os.path.join(ROOT, 'known_findings.json')
    if not os.path.exists(p):
        return []
    with open(p) as f:
        return json.load(f).get('findings', [])


def parent(args):
    pid = args.prop
    tier = args.tier
    seed = args.seed
    try:
        mod = load_prop(pid)
    except ImportError as e:
        print('INCONCLUSIVE property=%s no check module (%s)' % (pid, e))
        return 2
    os.makedirs(os.path.join(OUT, 'replay'), exist_ok=True)
    os.makedirs(os.path.join(OUT, 'shards'), exist_ok=True)
    # runs against another checkout (seeded changes, mutants) must not overwrite the evidence of /repo
    evdir = os.path.join(OUT, 'evidence-other-checkout') if os.environ.get('TV_REPO') else os.path.join(ROOT, 'evidence')
    os.makedirs(evdir, exist_ok=True)
    # QUICK_S is the time the quick workload needs on an idle machine; the workload itself is capped by operation counts,
    # so the wall-clock cap is set three times as high: a loaded machine makes the run slower, not inconclusive
    budget = args.budget or (3 * getattr(mod, 'QUICK_S', 40) if tier == 'quick'
                             else getattr(mod, 'THOROUGH_S', 600))
    nshards = args.shards or getattr(mod, 'SHARDS', min(16, os.cpu_count() or 4))
    t0 = time.time()
    env = dict(os.environ)
    env['PYTHONHASHSEED'] = '0'
    env['PYTHONPATH'] = ROOT + (os.pathsep + env['PYTHONPATH'] if env.get('PYTHONPATH') else '')
    env.pop('VERIF_SEED', None)
    procs = []
    tag = '%s-%s-%d-%d' % (pid, tier, seed, os.getpid())
    for k in range(nshards):
        out = os.path.join(OUT, 'shards', '%s-%d.json' % (tag, k))
        cmd = [PY, '-m', 'tv.runner', '--worker', pid, '--tier', tier, '--seed', str(seed),
               '--shard', str(k), '--nshards', str(nshards), '--out', out,
               '--budget', str(budget)]
        log = open(out + '.log', 'w')
        procs.append((k, out, subprocess.Popen(cmd, cwd=ROOT, env=env, stdout=log,
                                               stderr=subprocess.STDOUT), log))
    hard = t0 + budget * 2.5 + 120
    shard_res = []
    problems = []
    for k, out, p, log in procs:
        try:
            p.wait(timeout=max(1, hard - time.time()))
        except subprocess.TimeoutExpired:
            p.kill()
            p.wait()
            problems.append('shard %d: watchdog fired' % k)
        log.close()
        if os.path.exists(out):
            try:
                with open(out) as f:
                    shard_res.append(json.load(f))
            except Exception as e:
                problems.append('shard %d: unreadable result (%s)' % (k, e))
            os.unlink(out)
        else:
            tail = ''
            try:
                with open(out + '.log') as f:
                    tail = f.read()[-600:]
            except Exception:
                pass
            problems.append('shard %d: died (rc=%s) %s' % (k, p.returncode, tail))
        try:
            if os.path.getsize(out + '.log') == 0 or os.path.exists(out + '.log'):
                os.unlink(out + '.log')
        except Exception:
            pass
    # ---- merge -------------------------------------------------------
    counters = {}
    fps = set()
    evaluations = 0
    overflow = 0
    samples = []
    violations = []
    viol_counts = {}
    truncated = {}
    exhaustive = {}
    notes = {}
    for r in shard_res:
        evaluations += r['evaluations']
        overflow += r['fp_overflow']
        fps.update(r['fps'])
        for k, v in r['counters'].items():
            if k.startswith('max_'):
                counters[k] = max(counters.get(k, 0), v)
            else:
                counters[k] = counters.get(k, 0) + v
        for s in r['samples']:
            if len(samples) < 6:
                samples.append(s)
        violations.extend(r['violations'])
        for k, v in r['viol_counts'].items():
            viol_counts[k] = viol_counts.get(k, 0) + v
        for k, v in r['truncated'].items():
            truncated[k] = truncated.get(k, 0) + v
        for k, v in r['exhaustive'].items():
            exhaustive[k] = exhaustive.get(k, True) and v
        notes.update(r.get('notes', {}))
        if r.get('harness_error'):
            problems.append('shard %d: harness error\n%s' % (r['shard'], r['harness_error']))
    known = {(k['property'], k['key']): k for k in load_known() if k.get('status') == 'known'}
    exit_code = 0
    known_hits = {}
    n_viol = 0
    printed = 0
    seen_keys = set()
    for v in violations:
        kk = (pid, v['key'])
        if kk in known:
            known_hits[v['key']] = viol_counts.get(v['key'], 1)
            continue
        n_viol += 1
        if v['key'] in seen_keys and printed >= 6:
            continue
        seen_keys.add(v['key'])
        h = fp_hash((v['key'], v['what'], v['replay']))
        path = os.path.join('out', 'replay', '%s-%s.json' % (pid, h))
        with open(os.path.join(ROOT, path), 'w') as f:
            json.dump({'property': pid, 'tier': tier, 'seed': seed, 'key': v['key'],
                       'what': v['what'], 'witness': v['witness'], 'replay': v['replay']},
                      f, indent=1)
        if printed < 12:
            print('VIOLATION property=%s replay=%s key=%s %s' % (pid, path, v['key'],
                                                                v['what'][:300]))
            printed += 1
        exit_code = 1
    for key, n in sorted(known_hits.items()):
        print('KNOWN-FINDING: property=%s %s: %s (seen %d times in this run)' % (
            pid, key, known[(pid, key)]['what'], n))
    required = getattr(mod, 'REQUIRED', {})
    if callable(required):
        required = required(tier)
    unmet = {k: (counters.get(k, 0), m) for k, m in required.items() if counters.get(k, 0) < m}
    if evaluations == 0:
        unmet['evaluations'] = (0, 1)
    if not samples:
        unmet['samples_recorded'] = (0, 1)
    exh_all = bool(exhaustive) and all(exhaustive.values()) and not problems
    wall = round(time.time() - t0, 2)
    level = getattr(mod, 'LEVEL', 'exploration')
    distinct = len(fps)
    cov = {
        'evaluations': evaluations,
        'distinct_nontrivial': distinct,
        'rule': getattr(mod, 'RULE', ''),
        'samples': samples[:6],
        'monitor_counters': counters,
        'known_finding_hits': known_hits,
        'violation_keys': viol_counts,
        'shards': nshards,
        'budget_s_per_shard': budget,
        'truncated_cases_not_run': truncated,
        'exhaustive_phases': exhaustive,
        'required_counters': required,
    }
    if fps and overflow:
        cov['distinct_note'] = 'fingerprint set capped; %d further cases not fingerprinted' % overflow
    if getattr(mod, 'EXHAUSTIVE_CLAIM', False):
        cov['exhaustive'] = bool(exh_all and not truncated)
    cov.update(notes)
    ev = {
        'property_id': pid, 'tier': tier, 'seed': seed, 'level': level,
        'coverage': cov,
        'assumptions': getattr(mod, 'ASSUMPTIONS', []),
        'wall_s': wall,
        'violations': n_viol,
        'verdict': 'violated' if exit_code == 1 else ('inconclusive' if (unmet or problems) else 'held-on-observed'),
    }
    with open(os.path.join(evdir, pid + '.json'), 'w') as f:
        json.dump(ev, f, indent=1, sort_keys=True)
    summary = ' '.join('%s=%s' % kv for kv in sorted(counters.items()))
    print('%s tier=%s seed=%d evaluations=%d distinct_nontrivial=%d wall=%.1fs %s' % (
        pid, tier, seed, evaluations, distinct, wall, summary[:1500]))
    if exit_code == 1:
        return 1
    if problems or unmet:
        for p in problems:
            print('INCONCLUSIVE property=%s %s' % (pid, p))
        for k, (have, need) in unmet.items():
            print('INCONCLUSIVE property=%s deciding counter %s=%d < %d' % (pid, k, have, need))
        return 2
    print('HELD property=%s on everything explored' % pid)
    return 0


def replay(args):
    _setup_path()
    sys.setrecursionlimit(6000)
    with open(args.replay) as f:
        w = json.load(f)
    pid = args.prop or w['property']
    mod = load_prop(pid)
    ctx = Ctx(pid, w.get('tier', 'quick'), w.get('replay', {}).get('_seed', w.get('seed', 0)), 0, 1, 600)
    ctx.replaying = True
    mod.replay(ctx, w['replay'])
    known = {(k['property'], k['key']) for k in load_known() if k.get('status') == 'known'}
    rc = 0
    for v in ctx.violations:
        if (pid, v['key']) in known:
            print('KNOWN-FINDING: property=%s %s: %s' % (pid, v['key'], v['what'][:300]))
        else:
            print('VIOLATION property=%s replay=%s key=%s %s' % (pid, args.replay, v['key'], v['what'][:600]))
            rc = 1
    if not ctx.violations:
        print('replay: no violation reproduced')
    return rc


def main(argv=None):
    ap = argparse.ArgumentParser()
    ap.add_argument('prop', nargs='?')
    ap.add_argument('--tier', default=os.environ.get('VERIF_TIER', 'quick'),
                    choices=['quick', 'thorough'])
    ap.add_argument('--seed', type=int, default=int(os.environ.get('VERIF_SEED', '0') or 0))
    ap.add_argument('--shards', type=int, default=0)
    ap.add_argument('--budget', type=float, default=0)
    ap.add_argument('--replay')
    ap.add_argument('--worker')
    ap.add_argument('--shard', type=int, default=0)
    ap.add_argument('--nshards', type=int, default=1)
    ap.add_argument('--out')
    ap.add_argument('--setup', action='store_true')
    args = ap.parse_args(argv)
    if args.setup:
        return 0 if ensure_deps() else 2
    if args.worker:
        return worker(args)
    if args.replay:
        return replay(args)
    if not args.prop:
        ap.error('property id required')
    return parent(args)


if __name__ == '__main__':
    sys.exit(main())

"""pytest plugin: run the repository's own suite with every Arpeggio monitor of tv/hooks.py installed and recording,
plus the C15 allocation hook, to show that the monitors do not perturb behaviour.

    cd /repo && PYTHONPATH=/verif /venv/bin/python -m pytest -q -p no:cacheprovider -p tools.pytest_monitors tests/functional
"""
from tv import hooks

PS = hooks.install_parse_state()
ML = hooks.install_match_log()
MEMO = hooks.install_memo_log()
ML.enabled = True
MEMO.enabled = True


def pytest_runtest_setup(item):
    # keep the logs bounded
    try:
        ML.clear()
    except Exception:
        pass
    for attr in ('records',):
        try:
            getattr(PS, attr).clear()
        except Exception:
            pass


def pytest_terminal_summary(terminalreporter):
    terminalreporter.write_line('tv monitors were installed and recording during this run')

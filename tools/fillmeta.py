#!/venv/bin/python
"""Adds 'summary' and 'needs_to_manifest' to seeded/*/meta.json from the agent's notes.md (kept verbatim beside it)."""
import json
import os
import re

ROOT = os.path.dirname(os.path.dirname(os.path.abspath(__file__)))
sd = os.path.join(ROOT, 'seeded')
for n in sorted(os.listdir(sd)):
    mp = os.path.join(sd, n, 'meta.json')
    np_ = os.path.join(sd, n, 'notes.md')
    if not (os.path.exists(mp) and os.path.exists(np_)):
        continue
    meta = json.load(open(mp))
    txt = open(np_, encoding='utf-8').read()
    paras = [re.sub(r'\s+', ' ', p).strip() for p in re.split(r'\n\s*\n|\n(?=[-*] )|\n(?=\*\*)', txt) if p.strip()]
    title = next((p.lstrip('# ').strip() for p in paras if p.startswith('#')), '')
    change = next((p for p in paras if re.search(r'\bchange\b', p, re.I) and not p.startswith('#')), '')
    needs = [p for p in paras if re.search(r'trigger|manifest|needed|it needs|requires|what it takes|only when|only if', p, re.I) and not p.startswith('#')]
    meta['summary'] = (title + ' -- ' + change)[:600] if change else title
    meta['needs_to_manifest'] = ' '.join(needs)[:900] if needs else 'see notes.md'
    meta['files'] = ['patch.diff (the change)', 'demo.py (exit 0 on the original code, 1 on the changed code)', 'notes.md (the agent\'s report)']
    json.dump(meta, open(mp, 'w'), indent=1, ensure_ascii=False)
print('done')

#!/venv/bin/python
"""tools/kf.py <property> <key> <status known|fixed> <commit|-> <what> [example]"""
import json, sys, os
p = os.path.join(os.path.dirname(os.path.dirname(os.path.abspath(__file__))), 'known_findings.json')
k = json.load(open(p))
prop, key, status, commit, what = sys.argv[1:6]
ex = sys.argv[6] if len(sys.argv) > 6 else ''
k['findings'] = [f for f in k['findings'] if not (f['property'] == prop and f['key'] == key)]
e = {'property': prop, 'key': key, 'status': status, 'what': what, 'example': ex}
if commit != '-':
    e['commit'] = commit
k['findings'].append(e)
json.dump(k, open(p, 'w'), indent=1)
print(len(k['findings']), 'findings')

#!/bin/sh
# usage: runall.sh [tier] [seed] ["C01 C02 ..."]
# run every check of the manifest (or the given ones) in the given tier, one after the other; prints one line per check
cd "$(dirname "$0")/.." || exit 2
TIER=${1:-quick}
SEED=${2:-0}
IDS=${3:-}
[ -n "$IDS" ] || IDS=$(/venv/bin/python -c "import json;print(' '.join(c['property_id'] for c in json.load(open('MANIFEST.json'))['checks']))")
for id in $IDS; do
  s=$(date +%s)
  out=$(./check $id --tier $TIER --seed $SEED 2>&1)
  rc=$?
  e=$(date +%s)
  [ $rc -ne 0 ] && mkdir -p out && echo "$out" > "out/runall-$id-$TIER-$SEED.log"
  echo "$id rc=$rc $((e-s))s $(echo "$out" | grep -c '^KNOWN-FINDING') known $(echo "$out" | grep -E '^(VIOLATION|INCONCLUSIVE)' | head -2 | cut -c1-160 | tr '\n' ' ')"
done

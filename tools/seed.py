#!/venv/bin/python
"""Seeded-change bookkeeping.

  tools/seed.py collect <worktree-id> <name>   copy /tmp/wt/<id>/_seeded -> seeded/<name>/
  tools/seed.py verify <name>                  suite still green with the patch; demo fails with / passes without
  tools/seed.py run <name> <prop> [check args] run ./check <prop> against a scratch worktree with the patch applied
  tools/seed.py matrix [names...]              run the quick check of each seeded change's property, print caught/missed
All scratch worktrees live under /tmp/sv and are removed afterwards.
"""
import json
import os
import shutil
import subprocess
import sys

ROOT = os.path.dirname(os.path.dirname(os.path.abspath(__file__)))
SEEDED = os.path.join(ROOT, 'seeded')
PY = '/venv/bin/python'


def sh(cmd, **kw):
    return subprocess.run(cmd, shell=True, text=True, capture_output=True, **kw)


def patch_path(name):
    p = os.path.join(SEEDED, name, 'patch.diff')
    if os.path.exists(p):
        return p
    return os.path.join(ROOT, 'mutants', name + '.diff')


def scratch(name, patch=True):
    d = '/tmp/sv/%s-%d' % (name, os.getpid())
    os.makedirs('/tmp/sv', exist_ok=True)
    r = sh('git -C /repo worktree add --detach %s HEAD' % d)
    if r.returncode:
        raise SystemExit(r.stderr)
    if patch:
        r = sh('git -C %s apply %s' % (d, patch_path(name)))
        if r.returncode:
            # written against an earlier commit: three-way merge, accepted only without conflicts
            r = sh('git -C %s apply -3 %s' % (d, patch_path(name)))
            bad = r.returncode or sh('grep -rl "^<<<<<<<" %s/textx' % d).stdout.strip()
            if bad:
                drop(d)
                raise SystemExit('patch of %s does not apply: %s' % (name, r.stderr))
            sh('git -C %s reset -q' % d)
    return d


def drop(d):
    sh('git -C /repo worktree remove --force %s' % d)
    shutil.rmtree(d, ignore_errors=True)
    sh('git -C /repo worktree prune')


def collect(wt, name):
    src = '/tmp/wt/%s/_seeded' % wt
    dst = os.path.join(SEEDED, name)
    os.makedirs(dst, exist_ok=True)
    for f in os.listdir(src):
        if f.endswith(('.diff', '.py', '.md')):
            shutil.copy(os.path.join(src, f), os.path.join(dst, f))
    # regenerate the patch from the worktree itself (authoritative)
    r = sh('git -C /tmp/wt/%s diff -- textx' % wt)
    if r.stdout.strip():
        open(os.path.join(dst, 'patch.diff'), 'w').write(r.stdout)
    print('collected', dst, os.listdir(dst))


def suite(d):
    r = sh('cd %s && %s -m pytest -q -p no:cacheprovider tests/functional 2>&1 | tail -3' % (d, PY))
    return r.stdout.strip().splitlines()[-1] if r.stdout.strip() else r.stderr


def demo(d, name):
    p = os.path.join(SEEDED, name, 'demo.py')
    r = sh('cd %s && PYTHONPATH=%s %s %s' % (d, d, PY, p), timeout=600)
    return r.returncode, (r.stdout + r.stderr)[-400:]


def verify(name):
    d0 = scratch(name, patch=False)
    try:
        base_suite = suite(d0)
        rc0, out0 = demo(d0, name)
    finally:
        drop(d0)
    d1 = scratch(name)
    try:
        pat_suite = suite(d1)
        rc1, out1 = demo(d1, name)
    finally:
        drop(d1)
    import re
    def counts(s):
        return tuple(re.findall(r'(\d+) (failed|passed)', s))
    ok = counts(base_suite) == counts(pat_suite) and rc0 == 0 and rc1 != 0
    res = {'suite_without': base_suite, 'suite_with': pat_suite, 'demo_without_rc': rc0,
           'demo_with_rc': rc1, 'demo_with_output': out1, 'confirmed': ok}
    print(json.dumps(res, indent=1))
    return res


def run(name, prop, extra):
    d = scratch(name)
    try:
        env = dict(os.environ, TV_REPO=d)
        r = subprocess.run([os.path.join(ROOT, 'check'), prop] + extra, env=env, text=True,
                           capture_output=True)
        out = r.stdout + r.stderr
    finally:
        drop(d)
    return r.returncode, out


def matrix(names):
    names = names or (sorted(os.listdir(SEEDED)) + sorted(f[:-5] for f in os.listdir(os.path.join(ROOT, 'mutants')) if f.endswith('.diff')))
    for n in names:
        mp = os.path.join(SEEDED, n, 'meta.json')
        if os.path.exists(mp):
            meta = json.load(open(mp))
        elif os.path.exists(os.path.join(ROOT, 'mutants', n + '.diff')):
            meta = {'property': n.split('-')[0]}
        else:
            continue
        try:
            rc, out = run(n, meta['property'], ['--tier', 'quick'])
        except SystemExit as e:
            print('%-28s %s PATCH-STALE %s' % (n, meta['property'], str(e)[:80].replace('\n', ' ')))
            continue
        keys = sorted(set(l.split('key=')[1].split(' ')[0] for l in out.splitlines() if l.startswith('VIOLATION')))
        print('%-28s %s rc=%d %s' % (n, meta['property'], rc, 'CAUGHT ' + ','.join(keys) if rc == 1 else 'MISSED'))
        sys.stdout.flush()


if __name__ == '__main__':
    cmd = sys.argv[1]
    if cmd == 'collect':
        collect(sys.argv[2], sys.argv[3])
    elif cmd == 'verify':
        verify(sys.argv[2])
    elif cmd == 'run':
        rc, out = run(sys.argv[2], sys.argv[3], sys.argv[4:])
        print(out[-6000:])
        print('rc =', rc)
    elif cmd == 'matrix':
        matrix(sys.argv[2:])
    elif cmd == 'intake':
        # intake <worktree-id> <name> <prop>: collect, verify, run the quick check, write meta.json, drop the agent's worktree
        wt, name, prop = sys.argv[2:5]
        collect(wt, name)
        res = verify(name)
        rc, out = run(name, prop, ['--tier', 'quick'])
        lines = [l for l in out.splitlines() if l.startswith(('VIOLATION', 'KNOWN-FINDING', 'INCONCLUSIVE', 'HELD'))]
        print('\n'.join(l[:400] for l in lines[:6]))
        print('check rc =', rc)
        mp = os.path.join(SEEDED, name, 'meta.json')
        meta = json.load(open(mp)) if os.path.exists(mp) else {}
        meta.update({'property': prop, 'verification': res,
                     'check': {'command': './check %s --tier quick (TV_REPO=<scratch worktree with patch.diff applied>)' % prop,
                               'rc': rc, 'caught': rc == 1, 'first_lines': [l[:300] for l in lines[:3]]}})
        json.dump(meta, open(mp, 'w'), indent=1)
        if res.get('confirmed'):
            drop('/tmp/wt/%s' % wt)
    elif cmd == 'intakeall':
        # every /tmp/wt/<prop> that holds a finished _seeded/ directory: collect under the next free name and process
        import string
        for wt in sorted(os.listdir('/tmp/wt')):
            if not os.path.exists('/tmp/wt/%s/_seeded/patch.diff' % wt) or not os.path.exists('/tmp/wt/%s/_seeded/demo.py' % wt):
                continue
            prop = wt
            used = {n.split('-', 1)[1] for n in os.listdir(SEEDED) if n.startswith(prop + '-')}
            letter = next(c for c in string.ascii_lowercase if c not in used)
            name = '%s-%s' % (prop, letter)
            r = subprocess.run([sys.executable, os.path.abspath(__file__), 'intake', wt, name, prop], text=True, capture_output=True,
                               timeout=1800)
            lines = [l for l in r.stdout.splitlines() if l.startswith(('check rc', ' \"confirmed'))]
            print(name, ' | '.join(l.strip() for l in lines))
            sys.stdout.flush()
    elif cmd == 'recheck':
        # recheck <name>...: run the property's quick check against the patched scratch tree again and update meta.json
        for name in sys.argv[2:]:
            mp = os.path.join(SEEDED, name, 'meta.json')
            meta = json.load(open(mp))
            prop = meta['property']
            rc, out = run(name, prop, ['--tier', 'quick'])
            lines = [l for l in out.splitlines() if l.startswith(('VIOLATION', 'KNOWN-FINDING', 'INCONCLUSIVE', 'HELD'))]
            meta['check'] = {'command': './check %s --tier quick (TV_REPO=<scratch worktree with patch.diff applied>)' % prop,
                             'rc': rc, 'caught': rc == 1, 'first_lines': [l[:300] for l in lines[:3]]}
            json.dump(meta, open(mp, 'w'), indent=1)
            print(name, prop, 'rc=%d' % rc, 'CAUGHT' if rc == 1 else 'MISSED')
            sys.stdout.flush()
    elif cmd == 'verifyall':
        for n in (sys.argv[2:] or sorted(os.listdir(SEEDED))):
            mp = os.path.join(SEEDED, n, 'meta.json')
            if not os.path.exists(os.path.join(SEEDED, n, 'patch.diff')) or not os.path.exists(os.path.join(SEEDED, n, 'demo.py')):
                continue
            meta = json.load(open(mp)) if os.path.exists(mp) else {}
            try:
                import io, contextlib
                buf = io.StringIO()
                with contextlib.redirect_stdout(buf):
                    res = verify(n)
            except SystemExit as e:
                res = {'confirmed': False, 'error': str(e)[:200]}
            meta['verification'] = res
            json.dump(meta, open(mp, 'w'), indent=1)
            print(n, 'confirmed' if res.get('confirmed') else 'NOT CONFIRMED', res.get('error', ''))
            sys.stdout.flush()

#!/venv/bin/python
"""Regenerate /root/seedhints/<ID>.txt (exclusion hints for the next round of seeded changes) from seeded/*/notes.md."""
import glob, os, re, sys
root = os.path.dirname(os.path.dirname(os.path.abspath(__file__)))
os.makedirs('/root/seedhints', exist_ok=True)
for k in range(1, 35):
    pid = 'C%02d' % k
    lines = []
    for d in sorted(glob.glob(os.path.join(root, 'seeded', pid + '-*'))):
        p = os.path.join(d, 'notes.md')
        if not os.path.exists(p):
            continue
        t = open(p).read()
        t = re.sub(r'^#.*\n', '', t).strip()
        t = ' '.join(t.split())
        lines.append('  - ' + t[:420])
    with open('/root/seedhints/%s.txt' % pid, 'w') as f:
        f.write('Changes that have ALREADY been studied for this property (do not repeat them or close variants; find a different '
                'mechanism, preferably in a different function or a different aspect of the property):\n' + '\n'.join(lines) + '\n')
print('ok')
